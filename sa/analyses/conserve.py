"""Byte conservation in copy-out paths, decided in the domain of linear forms (no solver, no execution):
along every loop-free path of a function that takes bytes out of a level-counted buffer,
      level_after + bytes_handed_out == level_before          (level_before = the level at the last suspension point)
Values are linear forms over opaque symbols (the level, buffer sizes, parameters), `min(a, b)` is resolved with the path's own
branch conditions.  A path whose quantities cannot be expressed stays undecided (counted, never reported)."""
from __future__ import annotations

import ast
import itertools
from typing import Any

from ..db import FunctionInfo, dotted

Lin = dict  # symbol -> coefficient, "" -> constant


def lin_const(c: int) -> Lin:
    return {"": c} if c else {}


def lin_sym(s: str) -> Lin:
    return {s: 1}


def lin_add(a: Lin, b: Lin, k: int = 1) -> Lin:
    out = dict(a)
    for s, c in b.items():
        out[s] = out.get(s, 0) + k * c
        if out[s] == 0:
            del out[s]
    return out


def lin_subst(a: Lin, sym: str, val: Lin) -> Lin:
    if sym not in a:
        return a
    c = a[sym]
    rest = {s: v for s, v in a.items() if s != sym}
    return lin_add(rest, val, c)


def show(a) -> str:
    if a is None:
        return "?"
    if isinstance(a, tuple):
        return f"min({show(a[1])}, {show(a[2])})"
    parts = []
    for s, c in sorted(a.items()):
        parts.append((f"{c}" if s == "" else (s if c == 1 else f"{c}*{s}")))
    return " + ".join(parts) if parts else "0"


class Path:
    def __init__(self, level_attr: str, self_name: str) -> None:
        self.env: dict[str, Any] = {}      # name -> Lin | ("min", Lin, Lin) | ("buf", length) | None
        self.level_attr = level_attr       # dotted, e.g. self.__n
        self.self_name = self_name
        self.level: Any = lin_sym("L0")
        self.base = "L0"
        self.conds: list[tuple[Lin, str]] = []   # (lin, op) meaning lin op 0, op in > >= == != < <=
        self.n_susp = 0
        self.dead = False
        self.result = None                 # ("ret", value) | ("raise",)
        self.neg_slices: list = []          # x[-n:] reached without n > 0 being established on the path

    def copy(self) -> "Path":
        p = Path(self.level_attr, self.self_name)
        p.env, p.level, p.base, p.conds, p.n_susp, p.dead, p.result = dict(self.env), self.level, self.base, list(self.conds), self.n_susp, self.dead, self.result
        p.neg_slices = list(self.neg_slices)
        return p


class Conserve:
    def __init__(self, fn: FunctionInfo, level_attr: str) -> None:
        self.fn = fn
        self.level_attr = level_attr
        self.fresh = itertools.count()

    # ---------------------------------------------------------------- values
    def length(self, e: ast.AST, p: Path):
        """length in bytes of the bytes-like value of e, as Lin / min / None"""
        v = self.value(e, p)
        if isinstance(v, tuple) and v[0] == "buf":
            return v[1]
        return None

    def value(self, e: ast.AST, p: Path):
        if isinstance(e, ast.Constant):
            if isinstance(e.value, bool):
                return None
            if isinstance(e.value, int):
                return lin_const(e.value)
            if isinstance(e.value, (bytes, str)):
                return ("buf", lin_const(len(e.value)))
            return None
        if isinstance(e, ast.NamedExpr):
            v = self.value(e.value, p)
            p.env[e.target.id] = v
            return v
        if isinstance(e, ast.Name):
            if e.id in p.env:
                return p.env[e.id]
            for a in self.fn.params():
                if a.arg == e.id:
                    is_int = a.annotation is not None and ast.unparse(a.annotation) == "int"
                    p.env[e.id] = lin_sym(e.id) if is_int else ("param", e.id)
                    return p.env[e.id]
            return None
        if isinstance(e, ast.Attribute):
            d = dotted(e)
            if d == self.level_attr:
                return p.level
            if e.attr == "nbytes":
                base = self.value(e.value, p)
                if isinstance(base, tuple) and base[0] == "buf":
                    return base[1]
                if isinstance(base, tuple) and base[0] == "param":
                    return lin_sym(f"len({base[1]})")
                return None
            if d and d.startswith(p.self_name + "."):
                return ("buf", lin_sym(f"cap({d})"))  # some other buffer-like attribute: opaque capacity
            return None
        if isinstance(e, ast.BinOp) and isinstance(e.op, (ast.Add, ast.Sub)):
            a, b = self.value(e.left, p), self.value(e.right, p)
            if isinstance(a, dict) and isinstance(b, dict):
                return lin_add(a, b, 1 if isinstance(e.op, ast.Add) else -1)
            return None
        if isinstance(e, ast.UnaryOp) and isinstance(e.op, ast.USub):
            a = self.value(e.operand, p)
            return lin_add({}, a, -1) if isinstance(a, dict) else None
        if isinstance(e, ast.Call):
            name = e.func.id if isinstance(e.func, ast.Name) else (e.func.attr if isinstance(e.func, ast.Attribute) else "")
            if name == "len" and e.args:
                v = self.value(e.args[0], p)
                if isinstance(v, tuple) and v[0] == "buf":
                    return v[1]
                if isinstance(v, tuple) and v[0] == "param":
                    return lin_sym(f"len({v[1]})")
                return None
            if name in ("bytes", "bytearray", "memoryview") and len(e.args) == 1:
                v = self.value(e.args[0], p)
                return v if isinstance(v, tuple) and v[0] == "buf" else (("buf", lin_sym(f"len({v[1]})")) if isinstance(v, tuple) and v[0] == "param" else None)
            if name in ("cast", "toreadonly", "tobytes") and isinstance(e.func, ast.Attribute):
                return self.value(e.func.value, p)
            if name == "min" and len(e.args) == 2:
                a, b = self.value(e.args[0], p), self.value(e.args[1], p)
                if isinstance(a, dict) and isinstance(b, dict):
                    return self.resolve_min(("min", a, b), p)
            return None
        if isinstance(e, ast.Subscript) and isinstance(e.slice, ast.Slice) and e.slice.step is None:
            lo_node = e.slice.lower
            if isinstance(lo_node, ast.UnaryOp) and isinstance(lo_node.op, ast.USub) and e.slice.upper is None:
                # x[-n:] means "the last n" only for n > 0: for n == 0 it is the whole of x
                n = self.value(lo_node.operand, p)
                proven = isinstance(n, dict) and (any(c == n and op == ">" for c, op in p.conds) or (set(n) == {""} and n[""] > 0))
                if not proven:
                    p.neg_slices.append((e, n))
            base = self.value(e.value, p)
            if isinstance(base, tuple) and base[0] == "param":
                base = ("buf", lin_sym(f"len({base[1]})"))
            if not (isinstance(base, tuple) and base[0] == "buf"):
                return None
            blen = base[1]
            lo = self.value(e.slice.lower, p) if e.slice.lower is not None else {}
            up = self.value(e.slice.upper, p) if e.slice.upper is not None else None
            if not isinstance(lo, dict) or not isinstance(blen, dict):
                return ("buf", None)
            if e.slice.upper is None:
                if lo == {}:
                    return ("buf", blen)
                return ("buf", None)
            if not isinstance(up, dict) or lo != {}:
                return ("buf", None)
            # x[:n] -> min(n, len(x))
            return ("buf", self.resolve_min(("min", up, blen), p))
        if isinstance(e, ast.Await):
            return None
        return None

    def resolve_min(self, m, p: Path):
        _, a, b = m
        if a == b:
            return a
        # assumption (an invariant asserted by the code under analysis): a fill level never exceeds the capacity of the object's own buffer
        for x, y in ((a, b), (b, a)):
            if len(y) == 1 and next(iter(y)).startswith("cap(") and next(iter(y.values())) == 1:
                return x
        d = lin_add(a, b, -1)  # a - b
        for c, op in p.conds:
            for sign in (1, -1):
                cc = lin_add({}, c, sign)
                if cc == d:
                    o = op if sign == 1 else {">": "<", ">=": "<=", "<": ">", "<=": ">=", "==": "==", "!=": "!="}[op]
                    if o in ("<", "<=", "=="):
                        return a
                    if o in (">", ">="):
                        return b
        return m

    # ---------------------------------------------------------------- conditions
    def cond(self, test: ast.AST, p: Path, truth: bool) -> bool:
        """record test == truth on p; False if the edge is known infeasible"""
        t = test
        while isinstance(t, ast.UnaryOp) and isinstance(t.op, ast.Not):
            t, truth = t.operand, not truth
        if isinstance(t, ast.BoolOp):
            if (isinstance(t.op, ast.And) and truth) or (isinstance(t.op, ast.Or) and not truth):
                return all(self.cond(v, p, truth) for v in t.values)
            for v in t.values:
                self.value(v, p)  # walrus side effects
            return True
        if isinstance(t, ast.Compare) and len(t.ops) == 1:
            a, b = self.value(t.left, p), self.value(t.comparators[0], p)
            if isinstance(t.comparators[0], ast.Constant) and t.comparators[0].value is None:
                return True
            if isinstance(a, dict) and isinstance(b, dict):
                op = {ast.Gt: ">", ast.GtE: ">=", ast.Lt: "<", ast.LtE: "<=", ast.Eq: "==", ast.NotEq: "!="}.get(type(t.ops[0]))
                if op is None:
                    return True
                if not truth:
                    op = {">": "<=", ">=": "<", "<": ">=", "<=": ">", "==": "!=", "!=": "=="}[op]
                d = lin_add(a, b, -1)
                if not d or set(d) == {""}:
                    c = d.get("", 0)
                    return {">": c > 0, ">=": c >= 0, "<": c < 0, "<=": c <= 0, "==": c == 0, "!=": c != 0}[op]
                self.add_cond(d, op, p)
            return True
        v = self.value(t, p)
        if isinstance(v, tuple) and v[0] == "buf" and isinstance(v[1], dict):
            v = v[1]  # truthiness of a bytes-like value = its length != 0
        if isinstance(v, dict):
            if not v or set(v) == {""}:
                return bool(v.get("", 0)) == truth
            self.add_cond(v, "!=" if truth else "==", p)
        return True

    def add_cond(self, d: Lin, op: str, p: Path) -> None:
        p.conds.append((d, op))
        if op == "==" and len([s for s in d if s != ""]) == 1:
            sym = next(s for s in d if s != "")
            val = lin_const(-d.get("", 0) // d[sym]) if d.get("", 0) % d[sym] == 0 else None
            if val is not None:
                for k, v in list(p.env.items()):
                    if isinstance(v, dict):
                        p.env[k] = lin_subst(v, sym, val)
                    elif isinstance(v, tuple) and v[0] == "buf" and isinstance(v[1], dict):
                        p.env[k] = ("buf", lin_subst(v[1], sym, val))
                if isinstance(p.level, dict):
                    p.level = lin_subst(p.level, sym, val)
                p.conds = [(lin_subst(c, sym, val), o) for c, o in p.conds]
                p.env[f"#subst:{sym}"] = val

    # ---------------------------------------------------------------- statements
    def run(self) -> list[Path]:
        p0 = Path(self.level_attr, self.fn.self_name or "self")
        done: list[Path] = []
        for p in self.block(self.fn.node.body, [p0]):
            if p.result is None:
                p.result = ("ret", None)
            done.append(p)
        return done + self.finished

    finished: list[Path]

    def block(self, stmts, paths: list[Path]) -> list[Path]:
        if not hasattr(self, "finished") or self.finished is None:
            self.finished = []
        for st in stmts:
            nxt: list[Path] = []
            for p in paths:
                nxt += self.stmt(st, p)
            paths = nxt
            if len(paths) + len(self.finished) > 64:
                raise OverflowError("too many paths")
        return paths

    def suspend(self, p: Path) -> None:
        p.n_susp += 1
        sym = f"L{next(self.fresh) + 1}"
        p.level, p.base = lin_sym(sym), sym
        p.conds = []

    def scan_awaits(self, node: ast.AST, p: Path) -> None:
        if any(isinstance(x, ast.Await) for x in ast.walk(node)):
            self.suspend(p)

    def stmt(self, st: ast.stmt, p: Path) -> list[Path]:
        if isinstance(st, ast.Expr):
            self.scan_awaits(st, p)
            return [p]
        if isinstance(st, (ast.Assign, ast.AnnAssign, ast.AugAssign)):
            val_node = getattr(st, "value", None)
            if val_node is None:
                return [p]
            self.scan_awaits(val_node, p)
            v = self.value(val_node, p)
            targets = st.targets if isinstance(st, ast.Assign) else [st.target]
            for t in targets:
                if isinstance(t, ast.Subscript):
                    self.value(t, p)
                if isinstance(st, ast.AugAssign):
                    cur = self.value(t, p)
                    if isinstance(cur, dict) and isinstance(v, dict) and isinstance(st.op, (ast.Add, ast.Sub)):
                        v2 = lin_add(cur, v, 1 if isinstance(st.op, ast.Add) else -1)
                    else:
                        v2 = None
                    self.store(t, v2, p)
                else:
                    self.store(t, v, p)
            return [p]
        if isinstance(st, ast.Return):
            if st.value is not None:
                self.scan_awaits(st.value, p)
            p.result = ("ret", self.value(st.value, p) if st.value is not None else None)
            self.finished.append(p)
            return []
        if isinstance(st, ast.Raise):
            p.result = ("raise",)
            self.finished.append(p)
            return []
        if isinstance(st, ast.If):
            pt, pf = p.copy(), p.copy()
            out = []
            if self.cond(st.test, pt, True):
                out += self.block(st.body, [pt])
            if self.cond(st.test, pf, False):
                out += self.block(st.orelse, [pf])
            return out
        if isinstance(st, (ast.With, ast.AsyncWith)):
            for it in st.items:
                self.scan_awaits(it.context_expr, p)
                if isinstance(st, ast.AsyncWith):
                    self.suspend(p)
                if isinstance(it.optional_vars, ast.Name):
                    # `with memoryview(x) as x` / `with x.cast("B") if ... else x as x`
                    ce = it.context_expr
                    if isinstance(ce, ast.IfExp):
                        ce = ce.orelse
                    p.env[it.optional_vars.id] = self.value(ce, p)
            return self.block(st.body, [p])
        if isinstance(st, (ast.Pass, ast.Assert, ast.Delete, ast.Global, ast.Nonlocal)):
            return [p]
        if isinstance(st, ast.Try):
            out = self.block(st.body, [p])
            out = self.block(st.orelse, out) if st.orelse else out
            return self.block(st.finalbody, out) if st.finalbody else out
        # loops and anything else: give up on this path
        p.dead = True
        p.level = None
        return [p]

    def store(self, t: ast.AST, v, p: Path) -> None:
        if isinstance(t, ast.Name):
            p.env[t.id] = v
        elif isinstance(t, ast.Attribute) and dotted(t) == self.level_attr:
            p.level = v if isinstance(v, dict) else None
        elif isinstance(t, ast.Tuple):
            for x in t.elts:
                self.store(x, None, p)


def check_function(fn: FunctionInfo, level_attr: str):
    """[(verdict, path)] with verdict in ok / violated / undecided / no-effect for every returning path of fn"""
    c = Conserve(fn, level_attr)
    c.finished = []
    out = []
    for p in c.run():
        for node, n in p.neg_slices:
            out.append(("negslice", p, f"`{ast.unparse(node)}` is reached without `{ast.unparse(node.slice.lower.operand)} > 0` being established"))
        if p.result is None or p.result[0] != "ret":
            continue
        if p.dead or p.level is None:
            out.append(("undecided", p, "level not expressible"))
            continue
        rv = p.result[1]
        handed = None
        if isinstance(rv, dict):
            handed = rv
        elif isinstance(rv, tuple) and rv[0] == "buf":
            handed = rv[1]
        elif rv is None:
            handed = None
        if isinstance(handed, tuple) and handed[0] == "min":
            handed = c.resolve_min(handed, p)
        if not isinstance(handed, dict):
            # nothing expressible is handed out: the level must be untouched
            if p.level == lin_sym(p.base):
                out.append(("no-effect", p, ""))
            else:
                out.append(("undecided", p, "returned amount not expressible"))
            continue
        # substitute equalities learned on the path
        total = lin_add(p.level, handed)
        for k, v in p.env.items():
            if k.startswith("#subst:"):
                total = lin_subst(total, k[7:], v)
        expect = lin_sym(p.base)
        for k, v in p.env.items():
            if k.startswith("#subst:"):
                expect = lin_subst(expect, k[7:], v)
        if any(s.startswith("L") and s[1:].isdigit() and s != p.base for s in total):
            out.append(("undecided", p, "mixes levels of different suspension epochs"))
        elif total == expect:
            out.append(("ok", p, ""))
        else:
            out.append(("violated", p, f"level_after + handed = {show(total)}, level_before = {show(expect)}"))
    return out


# ---------------------------------------------------------------------------------------------------------------------------------
def check_read_before_compaction(eng, run, rule: str, floor: int = 1) -> None:
    """A buffer that is compacted in place (`B[:k] = B[-k:]`: the unread tail is moved to the front) is read out *before* the move
    on every path: a copy taken afterwards returns the tail twice and loses the head.  Decided for every function of the package
    that contains such a self-move, with the structured interpreter (fact: has B been compacted on this path)."""
    import ast as _ast

    from ..db import own_nodes
    from ..flow import Interp
    from .base import RuleAnalysis

    from ..db import dotted as _dotted

    def self_move(st):
        if isinstance(st, _ast.Assign) and len(st.targets) == 1 and isinstance(st.targets[0], _ast.Subscript) and isinstance(st.value, _ast.Subscript):
            a, b = _dotted(st.targets[0].value), _dotted(st.value.value)
            if a and a == b:
                return a
        return None

    class Moved(RuleAnalysis):
        tokens = ("Exception",)

        def __init__(self, e, base):
            super().__init__(e)
            self.base = base
            self.viol = []

        def initial(self, f):
            return [False]

        def may_raise(self, node, fact):
            return []

        def transfer(self, node, fact):
            if self_move(node) == self.base:
                return [True]
            if fact and isinstance(node, (_ast.Assign, _ast.AnnAssign, _ast.AugAssign, _ast.Return, _ast.Expr)):
                val = getattr(node, "value", None)
                if val is not None and any(isinstance(x, (_ast.Name, _ast.Attribute)) and _dotted(x) == self.base and isinstance(x.ctx, _ast.Load) for x in _ast.walk(val)):
                    # a rebinding of the base name itself (`B = view[...]`) starts a new buffer
                    if not any(n is node for n in self.viol):
                        self.viol.append(node)
            if isinstance(node, (_ast.Assign, _ast.AnnAssign)) and any(_dotted(t) == self.base for t in (node.targets if isinstance(node, _ast.Assign) else [node.target])):
                return [False]
            return [fact]

    n = 0
    for fn in eng.db.all_functions():
        if isinstance(fn.node, _ast.Lambda):
            continue
        bases = {b for st in own_nodes(fn.node) if (b := self_move(st))}
        for b in sorted(bases):
            n += 1
            an = Moved(eng, b)
            Interp(an, fn).run()
            for v in an.viol[:1]:
                run.finding(rule, fn, v, f"`{b}` is read after it has been compacted in place on this path: the bytes copied out are the moved tail, the head of the received data is lost and the tail is delivered twice")
            run.ob(rule, f"{fn.short}:{b}:copied-out-before-compaction", not an.viol)
    run.floor(f"{rule} in-place buffer compactions", n, floor)
