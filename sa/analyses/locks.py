"""Lock-held typestate: which locks / guards are held at given call sites on every path (DESIGN.md C12.held, C18)."""
from __future__ import annotations

import ast
from typing import Any, Callable

from ..db import FunctionInfo, dotted
from ..exc import CANCELLED
from ..flow import ForIter, WithEnter, WithExit, call_of
from .base import RuleAnalysis


def canon_lock(e: ast.AST | None, fn=None) -> str | None:
    """`self.__lock`, `self.__lock.get()`, `lock_with_timeout(self.__lock.get(), t)` -> "self.__lock"; with `fn`, a local that is
    bound once to such an expression (`lock = self.__lock.get()`) is looked through."""
    hops = 0
    while True:
        if fn is not None and isinstance(e, ast.Name) and hops < 3:
            from .buffers import through_local
            e2 = through_local(fn, e)
            if e2 is not e:
                e, hops = e2, hops + 1
                continue
        if isinstance(e, ast.Call):
            f = e.func
            if isinstance(f, ast.Attribute) and f.attr == "get" and not e.args:
                e = f.value
                continue
            name = f.attr if isinstance(f, ast.Attribute) else getattr(f, "id", "")
            if name == "lock_with_timeout" and e.args:
                e = e.args[0]
                continue
            return None
        return dotted(e) if e is not None else None


class LockHeld(RuleAnalysis):
    """fact = frozenset of canonical lock expressions currently held (entries `via:<stack>:<lock>` for locks
    entered through an ExitStack)."""

    tokens = ("Exception", CANCELLED)

    def __init__(self, engine, locks: set[str], site_pred: Callable[[Any, "LockHeld"], bool]) -> None:
        super().__init__(engine)
        self.locks = locks
        self.site_pred = site_pred
        self.sites: list[tuple[Any, frozenset]] = []
        self.stacks: set[str] = set()
        self.nested: list[tuple[str, frozenset, Any]] = []  # (lock acquired, locks already held, node)
        self.releases: list[Any] = []

    def initial(self, fn):
        from ..db import own_nodes

        for n in own_nodes(fn.node):
            if isinstance(n, (ast.With, ast.AsyncWith)):
                for it in n.items:
                    ce = it.context_expr
                    if isinstance(ce, ast.Call) and (dotted(ce.func) or "").split(".")[-1] in ("ExitStack", "AsyncExitStack") and isinstance(it.optional_vars, ast.Name):
                        self.stacks.add(it.optional_vars.id)
            if isinstance(n, ast.Assign) and len(n.targets) == 1 and isinstance(n.targets[0], ast.Name) and isinstance(n.value, ast.Call) \
                    and isinstance(n.value.func, ast.Attribute) and n.value.func.attr in ("enter_context", "enter_async_context") and n.value.args \
                    and isinstance(n.value.args[0], ast.Call) and (dotted(n.value.args[0].func) or "").split(".")[-1] in ("ExitStack", "AsyncExitStack"):
                self.stacks.add(n.targets[0].id)
        return [frozenset()]

    def may_raise(self, node, fact):
        if isinstance(node, (ast.Await,)) or (isinstance(node, (WithEnter, ForIter)) and node.is_async):
            return self.tokens
        if isinstance(node, ast.Call):
            return ["Exception"]
        return []

    def transfer(self, node: Any, fact):
        held: frozenset = fact
        if self.site_pred(node, self):
            self.sites.append((node, held))
        if isinstance(node, WithEnter):
            c = canon_lock(node.item.context_expr, self.fn)
            if c in self.locks:
                self.nested.append((c, held, node))
                return [held | {c}]
        call = call_of(node)
        if call is not None and isinstance(call.func, ast.Attribute):
            recv = dotted(call.func.value)
            if call.func.attr in ("enter_context", "enter_async_context") and recv in self.stacks and call.args:
                c = canon_lock(call.args[0], self.fn)
                if c in self.locks:
                    self.nested.append((c, held, node))
                    return [held | {f"via:{recv}:{c}"}]
            if call.func.attr == "close" and recv in self.stacks:
                return [frozenset(x for x in held if not x.startswith(f"via:{recv}:"))]
            if call.func.attr == "release" and canon_lock(call.func.value, self.fn) in self.locks:
                self.releases.append(node)
                return [frozenset(x for x in held if x != canon_lock(call.func.value, self.fn) and not x.endswith(":" + canon_lock(call.func.value, self.fn)))]
            if call.func.attr == "acquire" and canon_lock(call.func.value, self.fn) in self.locks:
                return [held | {canon_lock(call.func.value, self.fn)}]
        return [held]

    def with_exit(self, node: WithExit, fact):
        held: frozenset = fact
        c = canon_lock(node.item.context_expr, self.fn)
        if c in self.locks:
            held = held - {c}
        var = node.item.optional_vars.id if isinstance(node.item.optional_vars, ast.Name) else None
        if var in self.stacks:
            held = frozenset(x for x in held if not x.startswith(f"via:{var}:"))
        return [(node.kind, node.token, held)]


def held_names(held: frozenset) -> set[str]:
    return {x.split(":", 2)[2] if x.startswith("via:") else x for x in held}
