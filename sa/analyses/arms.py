"""Shadowed `except` arms: an arm all of whose classes are caught by an earlier arm of the same `try` never runs, so the
conversion / clean-up it contains is silently lost (Python picks the first matching arm)."""
from __future__ import annotations

import ast

from ..db import own_nodes


def check_dead_arms(eng, run, rule: str, module_prefixes: tuple[str, ...], minimum: int) -> None:
    n = 0
    for fn in eng.db.all_functions():
        if isinstance(fn.node, ast.Lambda) or not fn.module.name.startswith(tuple("easynetwork." + p for p in module_prefixes)):
            continue
        for t in own_nodes(fn.node):
            if not isinstance(t, ast.Try) or len(t.handlers) < 2:
                continue
            n += 1
            dead = eng.lattice.dead_handlers(fn, t)
            for h, e in dead:
                run.finding(rule, fn, h.body[0], f"`except {ast.unparse(h.type)}` can never run: the earlier `except {ast.unparse(e.type)}` arm of the same try catches every class it names, "
                            "so the error conversion in this arm is lost")
            run.ob(rule, f"{fn.module.name.split('easynetwork.')[1]}:{fn.short}:try@{len(t.handlers)}arms:{ast.unparse(t.handlers[0].type)[:24] if t.handlers[0].type else ''}", not dead)
    run.floor(f"{rule} multi-arm try statements", n, minimum)


def check_handler_attrs(eng, run, rule: str, module_prefixes: tuple[str, ...], minimum: int, resolve=None) -> None:
    """`except (A, B) as exc:` followed by `exc.attr`: the attribute must exist on instances of *every* class the arm catches,
    otherwise the arm itself raises AttributeError for the other class and the conversion it performs is replaced by a crash."""
    n = 0
    for fn in eng.db.all_functions():
        if isinstance(fn.node, ast.Lambda) or not fn.module.name.startswith(tuple("easynetwork." + p for p in module_prefixes)):
            continue
        for t in own_nodes(fn.node):
            if not isinstance(t, ast.Try):
                continue
            for h in t.handlers:
                if h.name is None or h.type is None:
                    continue
                names = eng.lattice.handler_classes(fn, h.type, resolve)
                uses = sorted({a.attr for a in ast.walk(h) if isinstance(a, ast.Attribute) and isinstance(a.ctx, ast.Load) and isinstance(a.value, ast.Name) and a.value.id == h.name})
                if not names or not uses:
                    continue
                n += 1
                bad = []
                for cls in names:
                    attrs = eng.lattice.instance_attrs(cls)
                    if attrs is None:
                        continue
                    for u in uses:
                        if u not in attrs and not _all_uses_guarded(eng, fn, h, u):
                            bad.append((cls, u))
                for cls, u in bad[:1]:
                    node = next(a for a in ast.walk(h) if isinstance(a, ast.Attribute) and a.attr == u and isinstance(a.value, ast.Name) and a.value.id == h.name)
                    run.finding(rule, fn, _stmt_containing(h, node), f"`{h.name}.{u}` is read in `except {ast.unparse(h.type)}` but instances of {cls} have no such attribute: "
                                f"when a {cls.split('.')[-1]} is caught the arm raises AttributeError instead of converting the error")
                run.ob(rule, f"{fn.module.name.split('easynetwork.')[1]}:{fn.short}:except {ast.unparse(h.type)[:30]} as {h.name}", not bad, attributes=uses, classes=[c.split(".")[-1] for c in names])
    run.floor(f"{rule} except arms reading attributes of the caught exception", n, minimum)


def _stmt_containing(h: ast.ExceptHandler, node: ast.AST) -> ast.AST:
    best = h.body[0]
    for st in ast.walk(h):
        if isinstance(st, ast.stmt) and not isinstance(st, (ast.If, ast.Try, ast.With)) and any(x is node for x in ast.walk(st)):
            best = st
    return best


def check_shared_future_awaits(eng, run, rule: str, minimum: int = 1) -> None:
    """a future stored in an attribute by one method and awaited by another outlives the awaiting task: awaiting it bare lets the
    cancellation of that task (a shutdown, a timeout) cancel the future itself - every later waiter then finishes at once.  Such
    futures are awaited only through asyncio.shield()."""
    from ..db import dotted
    n = 0
    for ci in eng.db.classes.values():
        if not ci.module.name.startswith("easynetwork."):
            continue
        created: dict[str, set[str]] = {}
        for m in ci.methods.values():
            if isinstance(m.node, ast.Lambda) or m.self_name is None:
                continue
            for a in own_nodes(m.node):
                if isinstance(a, (ast.Assign, ast.AnnAssign)) and isinstance(getattr(a, "value", None), ast.Call) and (dotted(a.value.func) or "").split(".")[-1] in ("create_future", "Future"):
                    for t in (a.targets if isinstance(a, ast.Assign) else [a.target]):
                        if isinstance(t, ast.Attribute) and dotted(t.value) == m.self_name:
                            created.setdefault(t.attr, set()).add(m.name)
        for m in ci.methods.values():
            if isinstance(m.node, ast.Lambda) or not m.is_async or m.self_name is None:
                continue
            aliases = {t.id: dotted(a.value) for a in own_nodes(m.node) if isinstance(a, ast.Assign) and isinstance(a.value, ast.Attribute) and dotted(a.value.value) == m.self_name
                       for t in a.targets if isinstance(t, ast.Name)}

            def shared(e):
                d = dotted(e)
                if isinstance(e, ast.Name) and e.id in aliases:
                    d = aliases[e.id]
                if d and d.startswith(m.self_name + "."):
                    attr = d.split(".", 1)[1]
                    if attr in created and m.name not in created[attr]:
                        return attr
                return None

            for node in own_nodes(m.node):
                if isinstance(node, ast.Await):
                    v = node.value
                    attr = shared(v)
                    shielded = None
                    if attr is None and isinstance(v, ast.Call) and (dotted(v.func) or "").split(".")[-1] == "shield" and v.args:
                        attr = shared(v.args[0])
                        shielded = True if attr else None
                    elif attr is not None:
                        shielded = False
                    if attr is None:
                        continue
                    n += 1
                    if not shielded:
                        run.finding(rule, m, node, f"`await {ast.unparse(v)[:50]}`: the future lives in `{attr}` (created in {sorted(created[attr])}) and is awaited bare - cancelling this task "
                                    "cancels the future itself, so the next call that waits on it returns at once (a stopped server cannot serve again)")
                    run.ob(rule, f"{ci.name}.{m.name}:await {attr}:shielded", bool(shielded))
    run.floor(f"{rule} awaits on futures shared through an attribute", n, minimum)


def _all_uses_guarded(eng, fn, h: ast.ExceptHandler, attr: str) -> bool:
    """every read of exc.<attr> in the arm is evaluated only after isinstance(exc, T) held, T having the attribute: an earlier
    operand of the same `and`, or the test of an enclosing `if` (body side)"""
    pm = {}
    for p_ in ast.walk(h):
        for c_ in ast.iter_child_nodes(p_):
            pm[c_] = p_

    def narrowing(test) -> bool:
        for c in ast.walk(test):
            if isinstance(c, ast.Call) and isinstance(c.func, ast.Name) and c.func.id == "isinstance" and len(c.args) == 2 and isinstance(c.args[0], ast.Name) and c.args[0].id == h.name:
                classes = eng.lattice.handler_classes(fn, c.args[1]) or []
                if classes and all(attr in (eng.lattice.instance_attrs(k) or set()) for k in classes):
                    return True
        return False

    uses = [a for a in ast.walk(h) if isinstance(a, ast.Attribute) and a.attr == attr and isinstance(a.value, ast.Name) and a.value.id == h.name and isinstance(a.ctx, ast.Load)]
    for u in uses:
        ok = False
        x = u
        while x in pm and not ok:
            p_ = pm[x]
            if isinstance(p_, ast.BoolOp) and isinstance(p_.op, ast.And):
                idx = next(i for i, v in enumerate(p_.values) if v is x)
                ok = any(narrowing(v) for v in p_.values[:idx])
            elif isinstance(p_, ast.If) and any(x is b for b in p_.body):
                t = p_.test
                ok = narrowing(t) and (not isinstance(t, ast.BoolOp) or isinstance(t.op, ast.And))
            elif isinstance(p_, ast.IfExp) and x is p_.body:
                ok = narrowing(p_.test)
            x = p_
        if not ok:
            return False
    return bool(uses)


def check_crossed_keywords(eng, run, rule: str, module_prefixes: tuple[str, ...], minimum: int) -> None:
    """f(a_timeout=b_timeout, b_timeout=a_timeout): two keyword arguments of one call whose values are each other's namesakes"""
    from ..db import dotted
    n = 0
    for fn in eng.db.all_functions():
        if isinstance(fn.node, ast.Lambda) or not fn.module.name.startswith(tuple("easynetwork." + p for p in module_prefixes)):
            continue
        for c in own_nodes(fn.node):
            if not isinstance(c, ast.Call):
                continue
            kws = [(k.arg, (dotted(k.value) or "").split(".")[-1].lstrip("_")) for k in c.keywords if k.arg and dotted(k.value)]
            if len(kws) < 2:
                continue
            n += 1
            crossed = []
            for i, (k1, v1) in enumerate(kws):
                for k2, v2 in kws[i + 1:]:
                    if k1 != k2 and v1 != v2 and v1.endswith(k2) and v2.endswith(k1) and not v1.endswith(k1) and not v2.endswith(k2):
                        crossed.append((k1, v1, k2, v2))
            # ... or one keyword is given the value that is the namesake of *another* keyword of the same call (which also gets it)
            if not crossed:
                for k1, v1 in kws:
                    for k2, v2 in kws:
                        if k1 != k2 and v1 == v2 and v1.endswith(k2) and not v1.endswith(k1) and not k2.endswith(k1):
                            crossed.append((k1, v1, k2, v2))
            for k1, v1, k2, v2 in crossed[:1]:
                run.finding(rule, fn, c, f"`{k1}={v1}` and `{k2}={v2}` are crossed over / duplicated in `{ast.unparse(c.func)}(...)`: a parameter receives the value configured for another one")
            if crossed or sum(1 for k, v in kws if v.endswith(k)) >= 2:
                run.ob(rule, f"{fn.short}:{ast.unparse(c.func)[:40]}@{c.lineno - fn.lineno}:keywords-not-crossed", not crossed)
    run.floor(f"{rule} calls with two or more named keyword arguments", n, minimum)
