"""Shadowed `except` arms: an arm all of whose classes are caught by an earlier arm of the same `try` never runs, so the
conversion / clean-up it contains is silently lost (Python picks the first matching arm)."""
from __future__ import annotations

import ast

from ..db import own_nodes


def check_dead_arms(eng, run, rule: str, module_prefixes: tuple[str, ...], minimum: int) -> None:
    n = 0
    for fn in eng.db.all_functions():
        if isinstance(fn.node, ast.Lambda) or not fn.module.name.startswith(tuple("easynetwork." + p for p in module_prefixes)):
            continue
        for t in own_nodes(fn.node):
            if not isinstance(t, ast.Try) or len(t.handlers) < 2:
                continue
            n += 1
            dead = eng.lattice.dead_handlers(fn, t)
            for h, e in dead:
                run.finding(rule, fn, h.body[0], f"`except {ast.unparse(h.type)}` can never run: the earlier `except {ast.unparse(e.type)}` arm of the same try catches every class it names, "
                            "so the error conversion in this arm is lost")
            run.ob(rule, f"{fn.module.name.split('easynetwork.')[1]}:{fn.short}:try@{len(t.handlers)}arms:{ast.unparse(t.handlers[0].type)[:24] if t.handlers[0].type else ''}", not dead)
    run.floor(f"{rule} multi-arm try statements", n, minimum)
