"""Ownership typestate for one local resource variable (DESIGN.md C19.own / C19.slot).

States of the tracked variable:
  none      nothing acquired (yet / any more)
  tmp       an acquire call has returned but its value is not bound yet (nested in an enclosing call)
  tmpcl     ... and wrapped in contextlib.closing(...)
  owned     bound to the tracked variable: this function must close / return / transfer it
  closed    .close() invoked
  returned  handed to the caller by `return`
  slot      stored into the winner slot (a nonlocal / outer variable) under an emptiness test
  stack     registered on an ExitStack (closed on every exit of its `with` unless pop_all() was called)
  escaped   ExitStack.pop_all() called: the registered resources now belong to the container being returned
  err:<msg> a discipline violation detected at a statement (reported with the path that reached it)
Second component: knowledge about the slot: None (no slot) / '?' / 'empty' / 'full'.
"""
from __future__ import annotations

import ast
from typing import Any, Callable, Iterable

from ..db import FunctionInfo, dotted
from ..exc import CANCELLED
from ..flow import FnExit, ForIter, WithEnter, WithExit, call_of
from .base import RuleAnalysis, is_name, none_test

OK_EXIT = {"none", "closed", "returned", "slot"}


class OwnershipAnalysis(RuleAnalysis):
    inline_helpers = True  # a step of the attempt extracted into a private helper (namesake arguments) is read in place
    tokens = ("OSError", "Exception", CANCELLED, "BaseException")

    def __init__(self, engine, var: str, is_acquire: Callable[[list[str]], bool], slot: str | None = None,
                 release_methods: tuple[str, ...] = ("close",)) -> None:
        super().__init__(engine)
        self.var = var
        self.is_acquire = is_acquire
        self.slot = slot
        self.release_methods = release_methods
        self.stacks: set[str] = set()
        self.containers: set[str] = set()
        self.acquire_sites: list[ast.AST] = []
        self.suspended_after_slot: list[ast.AST] = []

    def initial(self, fn: FunctionInfo):
        # discover stack variables and containers syntactically
        from ..db import own_nodes

        for n in own_nodes(fn.node):
            if isinstance(n, (ast.With, ast.AsyncWith)):
                for it in n.items:
                    if self._is_stack_ctor(it.context_expr) and isinstance(it.optional_vars, ast.Name):
                        self.stacks.add(it.optional_vars.id)
            if isinstance(n, ast.Assign) and len(n.targets) == 1 and isinstance(n.targets[0], ast.Name):
                v = n.value
                if isinstance(v, ast.Call) and isinstance(v.func, ast.Attribute) and v.func.attr == "enter_context" and v.args and self._is_stack_ctor(v.args[0]):
                    self.stacks.add(n.targets[0].id)
            if isinstance(n, ast.Call) and isinstance(n.func, ast.Attribute) and n.func.attr == "append" and n.args and is_name(n.args[0], self.var):
                d = dotted(n.func.value)
                if d:
                    self.containers.add(d)
        return [("none", "?" if self.slot else None)]

    def _is_stack_ctor(self, e: ast.AST) -> bool:
        return isinstance(e, ast.Call) and (dotted(e.func) or "").split(".")[-1] in ("ExitStack", "AsyncExitStack")

    def _acquire_call(self, node: Any) -> bool:
        call = call_of(node)
        if call is None:
            return False
        if isinstance(node, ast.Call) and False:
            return False
        names = self.target_names(call)
        return bool(names) and self.is_acquire(names)

    # ------------------------------------------------------------------ transfer
    def transfer(self, node: Any, fact) -> Iterable:
        state, slot = fact
        if state.startswith("err:"):
            return [fact]
        if slot == "empty" and (isinstance(node, ast.Await) or (isinstance(node, (WithEnter, WithExit, ForIter)) and node.is_async)):
            slot = "?"  # another task may have filled the slot while this one was suspended
            fact = (state, slot)
        if isinstance(node, (ast.Call, ast.Await)):
            call = call_of(node)
            if call is None:
                if isinstance(node, ast.Await) and state == "slot":
                    return [("err:suspension between storing the socket into the winner slot and returning", slot)]
                return [fact]
            if self._acquire_call(node):
                if node not in self.acquire_sites:
                    self.acquire_sites.append(node)
                if state in ("owned", "tmp", "tmpcl"):
                    return [(f"err:{self.var} re-acquired while the previous one is still owned", slot)]
                return [("tmp", slot)]
            if isinstance(node, ast.Await) and state == "slot":
                return [("err:suspension between storing the socket into the winner slot and returning", slot)]
            f = call.func
            if isinstance(f, ast.Attribute):
                recv = dotted(f.value)
                if recv == self.var and f.attr in self.release_methods and state in ("owned",):
                    return [("closed", slot)]
                if self.slot and recv == self.slot and f.attr in self.release_methods and state == "slot":
                    return [("closed", slot)]
                if f.attr == "pop_all" and recv in self.stacks and state == "stack":
                    return [("escaped", slot)]
                if f.attr == "closing" or (isinstance(f, ast.Attribute) and dotted(f) and dotted(f).endswith("contextlib.closing")):
                    if state == "tmp" and call.args and self._is_acquire_expr(call.args[0]):
                        return [("tmpcl", slot)]
                    if state == "owned" and call.args and is_name(call.args[0], self.var):
                        return [("tmpcl", slot)]
                if f.attr == "enter_context" and recv in self.stacks and state == "tmpcl":
                    return [("stack", slot)]
                if f.attr == "callback" and recv in self.stacks and call.args and dotted(call.args[0]) == f"{self.var}.close" and state == "owned":
                    return [("stack", slot)]
            return [fact]
        if isinstance(node, ast.Assign) and len(node.targets) == 1:
            tgt = node.targets[0]
            if isinstance(tgt, ast.Name) and tgt.id == self.var:
                if state == "tmp" and self._is_acquire_expr(node.value):
                    return [("owned", slot)]
                if state == "stack":
                    return [fact]
                if state == "owned":
                    return [(f"err:{self.var} re-bound while owned", slot)]
                return [fact]
            if self.slot and is_name(tgt, self.slot):
                if is_name(node.value, self.var) and state == "owned":
                    if slot != "empty":
                        return [("err:winner slot written without a dominating emptiness test (a second finisher would overwrite and leak the first socket)", slot)]
                    return [("slot", "full")]
                return [(state, "?")]
        if isinstance(node, ast.Return):
            v = node.value
            if is_name(v, self.var) and state == "owned":
                return [("returned", slot)]
            if state == "escaped" and v is not None and dotted(v) in self.containers:
                return [("returned", slot)]
            return [fact]
        if isinstance(node, WithEnter):
            return [fact]
        return [fact]

    def _is_acquire_expr(self, e: ast.AST) -> bool:
        if isinstance(e, ast.Await):
            e = e.value
        return isinstance(e, ast.Call) and any(call_of(s) is e for s in self.acquire_sites)

    def may_raise(self, node: Any, fact):
        call = call_of(node)
        if isinstance(node, ast.Call) and isinstance(call.func, ast.Attribute):
            recv = dotted(call.func.value)
            # stack.enter_context(closing(x)) / stack.callback(x.close) / stack.pop_all() only record or move entries
            if recv in self.stacks and call.func.attr in ("enter_context", "callback", "pop_all", "push"):
                if call.func.attr != "enter_context" or (call.args and isinstance(call.args[0], ast.Call) and (dotted(call.args[0].func) or "").split(".")[-1] in ("closing", "ExitStack")):
                    return []
        return super().may_raise(node, fact)

    def raise_fact(self, node: Any, fact, token: str):
        # an exception out of the acquiring call itself: nothing was acquired
        return [fact]

    def with_exit(self, node: WithExit, fact):
        state, slot = fact
        ce = node.item.context_expr
        if self._is_stack_ctor(ce) and state == "stack":
            return [(node.kind, node.token, ("closed", slot))]
        if isinstance(ce, ast.Call) and (dotted(ce.func) or "").endswith("closing") and ce.args and is_name(ce.args[0], self.var) and state == "owned":
            return [(node.kind, node.token, ("closed", slot))]
        return [(node.kind, node.token, fact)]

    def branch(self, test: ast.AST, fact):
        state, slot = fact
        nt = none_test(test)
        if nt and self.slot and nt[0] == self.slot:
            is_none = nt[1]
            t = (state, "empty") if is_none else (state, "full")
            f = (state, "full") if is_none else (state, "empty")
            if slot == "full":
                return (None, [fact]) if is_none else ([fact], None)
            if slot == "empty":
                return ([fact], None) if is_none else (None, [fact])
            return [t], [f]
        return [fact], [fact]


class SlotAnalysis(RuleAnalysis):
    """The winner slot seen from the function that owns it and returns it (C19.slot / C19.one).

    State: 'empty' | 'full' | 'closed' | 'returned'.  Writer tasks run whenever this function is suspended,
    so every suspension point (and every exception edge out of one) turns 'empty' into {'empty','full'}.
    """

    tokens = ("OSError", "Exception", CANCELLED, "BaseException")

    def __init__(self, engine, slot: str) -> None:
        super().__init__(engine)
        self.slot = slot

    def initial(self, fn):
        return ["empty"]

    def _suspends(self, node: Any) -> bool:
        return isinstance(node, ast.Await) or (isinstance(node, (WithEnter, WithExit, ForIter)) and node.is_async)

    def transfer(self, node: Any, fact):
        if self._suspends(node) and fact == "empty":
            return ["empty", "full"]
        if isinstance(node, ast.Call) and isinstance(node.func, ast.Attribute) and dotted(node.func.value) == self.slot and node.func.attr == "close":
            return ["closed"] if fact == "full" else [fact]
        if isinstance(node, ast.Return):
            if is_name(node.value, self.slot):
                return ["returned"] if fact == "full" else [fact]
        if isinstance(node, ast.Assign) and any(is_name(t, self.slot) for t in node.targets):
            if isinstance(node.value, ast.Constant) and node.value.value is None or (isinstance(node.value, ast.Call) and (dotted(node.value.func) or "").endswith("cast")):
                return ["empty"] if fact in ("empty",) else ["err:slot cleared while full" if fact == "full" else fact]
        return [fact]

    def raise_fact(self, node: Any, fact, token):
        if self._suspends(node) and fact == "empty":
            return ["empty", "full"]
        return [fact]

    def may_raise(self, node: Any, fact):
        if isinstance(node, WithExit) and node.is_async:
            return self.tokens
        return super().may_raise(node, fact)

    def branch(self, test, fact):
        nt = none_test(test)
        if nt and nt[0] == self.slot and fact in ("empty", "full"):
            is_none = nt[1]
            if fact == "empty":
                return ([fact], None) if is_none else (None, [fact])
            return (None, [fact]) if is_none else ([fact], None)
        return [fact], [fact]
