"""Close-obligation typestate (DESIGN.md C14.own): on every exit edge of a close path - normal return, any
exception token out of any call, Cancelled out of any await that can really be cancelled - the close of every
owned resource has been *invoked* (gracefully or forcefully).

Fact = (frozenset(invoked exprs), frozenset(flags)).  Flags:
  reg:<stack>:<expr>   close of <expr> registered on ExitStack <stack> (runs on every exit of its `with`)
  caught:<scope>       the cancel scope <scope> swallowed a cancellation on this path
  precond              the path left through a listed synchronous precondition failure (exempt)
"""
from __future__ import annotations

import ast
from typing import Any, Iterable

from ..db import ClassInfo, FunctionInfo, dotted, own_nodes
from ..exc import CANCELLED
from ..flow import FnExit, ForIter, Interp, Out, WithEnter, WithExit, call_of
from .base import RuleAnalysis, none_test

CLOSE_METHODS = {"aclose", "close", "abort", "server_close"}
SCOPE_FACTORIES = {"move_on_after", "move_on_at", "open_cancel_scope", "timeout", "timeout_at"}
MORE_CANNOT_RAISE_METHODS = {
    "backend", "move_on_after", "move_on_at", "open_cancel_scope", "timeout", "timeout_at", "create_event", "create_lock",
    "create_fair_lock", "get_cancelled_exc_class", "cancelled_caught", "cancel_called", "clear", "set",
    "getLogger", "get", "pop", "cancel", "is_set", "get_extra_info", "callback", "push_async_callback",
    "_get_close_waiter", "setblocking", "_get_socket_extra", "_get_tls_extra", "MappingProxyType", "popleft", "append", "add", "discard", "release", "notify_closing", "fileno",
}


def call_name(call: ast.AST | None) -> str:
    if isinstance(call, ast.Call):
        f = call.func
        if isinstance(f, ast.Attribute):
            return f.attr
        if isinstance(f, ast.Name):
            return f.id
    return ""


LOCK_TYPES = {"ILock", "Lock", "FairLock", "FastFIFOLock", "ICondition"}


class CloseAnalysis(RuleAnalysis):
    inline_helpers = True  # an extracted private helper (e.g. the closing handshake of aclose) is interpreted in place
    tokens = ("OSError", "Exception", CANCELLED, "BaseException")

    def __init__(self, engine, tracked: Iterable[str], registry: "CloserRegistry", own_flags: Iterable[str] = (),
                 is_cm: bool = False, late: Iterable[str] = (), close_methods: Iterable[str] | None = None) -> None:
        super().__init__(engine)
        self.tracked = list(tracked)
        self.registry = registry
        self.own_flags = set(own_flags)  # `self.__closing`-like attribute names (mangled text as written)
        self.is_cm = is_cm
        self.stacks: dict[str, str] = {}
        self.scopes: set[str] = set()
        self.aliases: dict[str, str] = {}
        self.exempt_sync_before_await = False
        self.close_methods = set(close_methods) if close_methods is not None else CLOSE_METHODS
        self.flag_at_close: list[tuple[Any, bool]] = []  # (closing atom, own closing flag already stored?)
        self.late = set(late)  # tracked expressions that are only bound inside the function (not owned before that)

    def initial(self, fn: FunctionInfo):
        from ..norm import nodes_inl
        for n, _owner in nodes_inl(fn):  # also the scopes / stacks opened in private helpers that are interpreted in place
            if isinstance(n, (ast.With, ast.AsyncWith)):
                for it in n.items:
                    ce = it.context_expr
                    if isinstance(ce, ast.Call) and isinstance(it.optional_vars, ast.Name):
                        last = call_name(ce)
                        if last in ("ExitStack", "AsyncExitStack"):
                            self.stacks[it.optional_vars.id] = last
                        if last in SCOPE_FACTORIES:
                            self.scopes.add(it.optional_vars.id)
        # local aliases of tracked expressions: `x = self.attr` (single binding)
        binds: dict[str, list[ast.AST]] = {}
        for n, _owner in nodes_inl(fn):
            if isinstance(n, ast.Assign) and len(n.targets) == 1 and isinstance(n.targets[0], ast.Name):
                binds.setdefault(n.targets[0].id, []).append(n.value)
            elif isinstance(n, (ast.AnnAssign, ast.AugAssign, ast.NamedExpr)) and isinstance(n.target, ast.Name):
                binds.setdefault(n.target.id, []).append(n)
        for name, vals in binds.items():
            if len(vals) == 1 and dotted(vals[0]) in self.tracked and name not in self.tracked:
                self.aliases[name] = dotted(vals[0])
        return [(frozenset(self.late), frozenset())]

    def canon(self, e: ast.AST | None) -> str | None:
        d = dotted(e) if e is not None else None
        if d is None:
            return None
        head, _, rest = d.partition(".")
        if head in self.aliases:
            d = self.aliases[head] + ("." + rest if rest else "")
        return d

    # ------------------------------------------------------------------ what closes what
    def closes(self, node: Any) -> list[str]:
        """Tracked expressions whose close is invoked by atom `node`."""
        call = call_of(node)
        if call is None:
            return []
        out = []
        f = call.func
        if isinstance(f, ast.Attribute) and f.attr in self.close_methods:
            d = self.canon(f.value)
            if d in self.tracked:
                out.append(d)
        # closer functions: f(..., X, ...) where f invokes the close of that parameter on all paths
        for i, a in enumerate(call.args):
            d = self.canon(a)
            if d in self.tracked and self.registry.is_closer(self.fn, call, i):
                out.append(d)
        # self.m(): a method of the same object that invokes the close of self.<field> on all its paths
        if isinstance(f, ast.Attribute) and isinstance(f.value, ast.Name) and self.fn is not None and f.value.id == self.fn.self_name:
            for t in self.tracked:
                if t.startswith(f.value.id + ".") and t not in out and self.registry.is_self_closer(self.fn, call, t):
                    out.append(t)
        return out

    def registration(self, call: ast.Call) -> list[tuple[str, str]]:
        """(stack, expr) pairs registered by `stack.callback(X.close)` / `push_async_callback(closer, X)` /
        `enter_async_context(cm(X))` / `enter_context(closing(X))`."""
        f = call.func
        if not isinstance(f, ast.Attribute):
            return []
        st = dotted(f.value)
        if st not in self.stacks:
            return []
        out = []
        if f.attr in ("callback", "push_async_callback", "push", "push_async_exit") and call.args:
            a0 = call.args[0]
            d0 = dotted(a0)
            if d0 and "." in d0 and d0.rsplit(".", 1)[1] in self.close_methods and d0.rsplit(".", 1)[0] in self.tracked:
                out.append((st, d0.rsplit(".", 1)[0]))
            elif len(call.args) > 1:
                fake = ast.Call(func=a0, args=call.args[1:], keywords=[])
                ast.copy_location(fake, call)
                for i, a in enumerate(fake.args):
                    d = dotted(a)
                    if d in self.tracked and self.registry.is_closer(self.fn, fake, i):
                        out.append((st, d))
        if f.attr in ("enter_context", "enter_async_context") and call.args and isinstance(call.args[0], ast.Call):
            inner = call.args[0]
            last = (dotted(inner.func) or "").split(".")[-1]
            for i, a in enumerate(inner.args):
                d = dotted(a)
                if d in self.tracked and (last in ("closing", "aclosing") or self.registry.is_closing_cm(self.fn, inner, i)):
                    out.append((st, d))
        return out

    # ------------------------------------------------------------------ transfer
    def transferred(self, node: Any) -> list[str]:
        """Ownership hand-over on *success*: `await f(.., X, ..)` / `Ctor(X, ..)` of a closable class / `start_soon(f, X)`.
        On the exception edge X stays with this function."""
        call = call_of(node)
        if call is None:
            return []
        out = []
        pos = [self.canon(a) for a in call.args]
        hits = [d for d in pos if d in self.tracked]
        if not hits:
            return []
        if isinstance(node, ast.Await):
            return hits
        if call_name(call) in ("start_soon", "start"):
            return hits
        for t in self.targets(call, dispatch=False):
            if isinstance(t, FunctionInfo) and t.name == "__init__" and t.cls is not None and \
                    (t.cls.find_method("close") or t.cls.find_method("aclose")) and t.cls.find_method("is_closing") or \
                    (isinstance(t, FunctionInfo) and t.name == "__init__" and t.cls is not None and t.cls.find_method("is_closed")):
                return hits
        return out

    def transfer(self, node: Any, fact):
        inv, flags = fact
        call = call_of(node)
        if isinstance(node, ast.Assign) and self.own_flags and any(dotted(t) in self.own_flags for t in node.targets) \
                and isinstance(node.value, ast.Constant) and node.value.value is True:
            return [(inv, flags | {"flagset"})]
        if call is not None and self.own_flags and self.closes(node):
            self.flag_at_close.append((node, "flagset" in flags or "earlier-close" in flags))
        if isinstance(node, (ast.Assign, ast.AnnAssign)) and self.late:
            tgts = node.targets if isinstance(node, ast.Assign) else [node.target]
            for t in tgts:
                d = dotted(t)
                if d in self.late and getattr(node, "value", None) is not None:
                    inv = inv - {d}
            return [(inv, flags)]
        if isinstance(node, ast.Raise) and node.exc is not None and "unwind" not in flags:
            nm = call_name(node.exc) if isinstance(node.exc, ast.Call) else ""
            if nm in ("TypeError", "ValueError") and not (self.interp and self.interp.ctx.handler_tokens):
                return [(inv, flags | {"precond"})]
        if isinstance(node, ast.Await) or (isinstance(node, (WithEnter, WithExit, ForIter)) and node.is_async):
            flags = flags | {"susp"}
        if call is not None:
            tr = self.transferred(node)
            if tr and not self.closes(node):
                inv = inv | frozenset(tr)
            c = self.closes(node)
            if c:
                inv = inv | frozenset(c)
            regs = self.registration(call)
            if regs:
                flags = flags | frozenset(f"reg:{s}:{x}" for s, x in regs)
            f = call.func
            if isinstance(f, ast.Attribute) and f.attr == "pop_all" and dotted(f.value) in self.stacks:
                st = dotted(f.value)
                flags = frozenset(x for x in flags if not x.startswith(f"reg:{st}:"))
        return [(inv, flags)]

    def raise_fact(self, node: Any, fact, token: str):
        inv, flags = fact
        # an exception edge out of the closing call itself counts as invoked (the callee is its own instance)
        c = self.closes(node)
        if c:
            inv = inv | frozenset(c)
        call = call_of(node)
        if call is not None and not c:
            for i, a in enumerate(call.args):
                d = self.canon(a)
                if d in self.tracked and self.registry.is_closer(self.fn, call, i, on_failure=True):
                    inv = inv | {d}  # the callee itself closes its argument on every failing exit (e.g. TLS wrap)
        if self.exempt_sync_before_await and isinstance(node, ast.Call) and "susp" not in flags:
            flags = flags | {"precond"}  # synchronous failure before anything was awaited: nothing started yet
        if isinstance(node, WithEnter) and not node.is_async and self._is_guard(node.item.context_expr):
            flags = flags | {"precond"}
        if isinstance(node, ast.Assert):
            flags = flags | {"precond"}
        if isinstance(node, ast.Raise) and isinstance(node.exc, ast.Call) and (dotted(node.exc.func) or "").split(".")[-1] in ("TypeError", "ValueError", "AssertionError") \
                and "susp" not in flags and not inv:
            flags = flags | {"precond"}  # argument validation before anything was done: the caller's bug, nothing was taken over
        return [(inv, flags)]

    def _is_lock(self, ce: ast.AST) -> bool:
        if self.fn is None:
            return False
        ts = self.typer.expr_types(self.fn, ce)
        return bool(ts) and all((t.kind == "repo" and t.ref.name in LOCK_TYPES) or (t.kind == "ext" and t.ref.split(".")[-1] in LOCK_TYPES) for t in ts)

    def _is_guard(self, ce: ast.AST) -> bool:
        if self.fn is None:
            return False
        for t in self.typer.expr_types(self.fn, ce):
            if t.kind == "repo" and t.ref.name == "ResourceGuard":
                return True
        return False

    def _trivial_cm(self, call: ast.AST | None) -> bool:
        """call of a repo @contextmanager / @asynccontextmanager whose generator reaches its `yield` without doing anything"""
        if not isinstance(call, ast.Call) or self.fn is None:
            return False
        tg = self.typer.call_targets(self.fn, call, dispatch=False)
        if not tg:
            return False
        for g in tg:
            if not isinstance(g, FunctionInfo) or not g.has_decorator("contextmanager", "asynccontextmanager"):
                return False
            body = g.node.body
            while body and isinstance(body[0], ast.Expr) and isinstance(body[0].value, ast.Constant):
                body = body[1:]
            while body and isinstance(body[0], (ast.Try, ast.With)) and not (isinstance(body[0], ast.With)):
                body = body[0].body
            if not (body and isinstance(body[0], ast.Expr) and isinstance(body[0].value, ast.Yield)):
                return False
        return True

    def may_raise(self, node: Any, fact) -> Iterable[str]:
        call = call_of(node)
        if call is not None and self._trivial_cm(call):
            return []  # creating the context manager object runs nothing
        if call is not None and call_name(call) in ("enter_context", "enter_async_context") and call.args and self._trivial_cm(call.args[0]):
            return []
        if isinstance(node, WithEnter) and self._trivial_cm(node.item.context_expr):
            return []
        if isinstance(node, ast.Call) and call_name(call) in MORE_CANNOT_RAISE_METHODS:
            return []
        if isinstance(node, WithEnter) and not node.is_async:
            if self._is_guard(node.item.context_expr):
                return ["Exception"]
            return []  # entering ExitStack / cancel scope / suppress cannot fail
        if isinstance(node, WithEnter) and call_name(node.item.context_expr) in ("AsyncExitStack", "ExitStack"):
            return []  # entering an (empty) exit stack neither fails nor suspends
        toks = list(super().may_raise(node, fact))
        if isinstance(node, (WithEnter, WithExit)) and node.is_async and self._is_lock(node.item.context_expr):
            toks = [CANCELLED] if isinstance(node, WithEnter) else []
        if CANCELLED in toks and self.fn is not None:
            # only awaits that can really suspend un-shielded are cancellation points
            if not self.engine.summaries.atom_may_cancel(self.fn, node):
                toks = [t for t in toks if t != CANCELLED]
        if isinstance(node, ast.Yield) and self.is_cm:
            return list(self.tokens)  # the body of the `with` may raise anything into the generator
        return toks

    def with_exit(self, node: WithExit, fact):
        inv, flags = fact
        ce = node.item.context_expr
        var = node.item.optional_vars.id if isinstance(node.item.optional_vars, ast.Name) else None
        res_fact = fact
        if var in self.stacks:
            done = {x.split(":", 2)[2] for x in flags if x.startswith(f"reg:{var}:")}
            if done:
                inv = inv | frozenset(done)
            res_fact = (inv, frozenset(x for x in flags if not x.startswith(f"reg:{var}:")))
            return [(node.kind, node.token, res_fact)]
        if isinstance(ce, ast.Call):
            last = call_name(ce)
            if last in ("closing", "aclosing") and ce.args and self.canon(ce.args[0]) in self.tracked:
                return [(node.kind, node.token, (inv | {self.canon(ce.args[0])}, flags))]
            for i, a in enumerate(ce.args):
                d = dotted(a)
                if d in self.tracked and self.registry.is_closing_cm(self.fn, ce, i):
                    inv = inv | {d}
                    res_fact = (inv, flags)
            if last in SCOPE_FACTORIES and node.kind == "exc" and node.token == CANCELLED:
                out = [("exc", CANCELLED, res_fact)]
                if last in ("timeout", "timeout_at"):
                    out.append(("exc", "OSError", res_fact))  # TimeoutError
                else:
                    out.append(("normal", None, (inv, flags | ({f"caught:{var}"} if var else set()))))
                return out
            if last == "suppress" and node.kind == "exc":
                names = self.lattice.handler_classes(self.fn, ast.Tuple(elts=list(ce.args), ctx=ast.Load()))
                v = self.lattice.match(names, node.token, self.tokens)
                if v == "must":
                    return [("normal", None, res_fact)]
                if v == "may":
                    return [("normal", None, res_fact), (node.kind, node.token, res_fact)]
        # `with X:` / `async with X:` on a tracked transport closes it on all exits
        d = dotted(ce)
        if d in self.tracked:
            return [(node.kind, node.token, (inv | {d}, flags))]
        return [(node.kind, node.token, res_fact)]

    def branch(self, test: ast.AST, fact):
        inv, flags = fact
        neg = False
        t = test
        while isinstance(t, ast.UnaryOp) and isinstance(t.op, ast.Not):
            neg = not neg
            t = t.operand
        tr: Any = [fact]
        fl: Any = [fact]
        if isinstance(t, ast.Call) and isinstance(t.func, ast.Attribute):
            recv = self.canon(t.func.value)
            if t.func.attr in ("is_closing", "is_closed") and recv in self.tracked:
                tr, fl = [(inv | {recv}, flags)], [fact]
            elif t.func.attr == "cancelled_caught" and recv in self.scopes:
                has = f"caught:{recv}" in flags
                tr, fl = ([fact] if has else None), (None if has else [fact])
        else:
            d = dotted(t)
            if d is not None and d in self.own_flags:
                # the object's own closing flag is already set: an earlier close() owns the obligation
                tr, fl = [(inv | frozenset(self.tracked), flags | {"earlier-close"})], [fact]
            nt = none_test(t)
            if nt:
                head, _, rest = nt[0].partition(".")
                nm = self.aliases.get(head, head) + ("." + rest if rest else "")
                if nm in self.tracked:
                    if nt[1]:
                        tr, fl = [(inv | {nm}, flags)], [fact]
                    else:
                        tr, fl = [fact], [(inv | {nm}, flags)]
            if isinstance(t, ast.Compare) and len(t.ops) == 1 and isinstance(t.left, ast.Call) and isinstance(t.left.func, ast.Attribute) \
                    and t.left.func.attr == "fileno" and self.canon(t.left.func.value) in self.tracked \
                    and isinstance(t.comparators[0], ast.Constant) and t.comparators[0].value == 0:
                nm = self.canon(t.left.func.value)
                if isinstance(t.ops[0], ast.Lt):
                    tr, fl = [(inv | {nm}, flags)], [fact]
                elif isinstance(t.ops[0], ast.GtE):
                    tr, fl = [fact], [(inv | {nm}, flags)]
        return (fl, tr) if neg else (tr, fl)


class CloserRegistry:
    """Which repo functions invoke the close of one of their parameters on every exit (computed, cached)."""

    def __init__(self, engine) -> None:
        self.engine = engine
        self._closer: dict[tuple[str, int], bool] = {}
        self._cm: dict[tuple[str, int], bool] = {}
        self._busy: set = set()

    def _param_name(self, g: FunctionInfo, call: ast.Call, argi: int) -> str | None:
        params = [a.arg for a in g.node.args.posonlyargs + g.node.args.args]
        if g.cls is not None and not g.has_decorator("staticmethod") and g.parent is None:
            params = params[1:]
        if argi < len(params):
            return params[argi]
        return None

    def _all_exits_invoke(self, g: FunctionInfo, pname: str, is_cm: bool, only_exc: bool = False) -> bool:
        an = CloseAnalysis(self.engine, [pname], self, is_cm=is_cm)
        # a callee counts as "closes its argument when it fails" only if that holds for its synchronous set-up failures too (F9)
        out = Interp(an, g).run()
        exits = ([] if only_exc else list(out.ret.items())) + [kv for m in out.exc.values() for kv in m.items()]
        if not exits:
            return False
        if is_cm:
            # every exit *after the yield*: approximated by every exit of the generator
            pass
        return all(pname in inv or "precond" in flags for (inv, flags), _ in exits)

    def is_closer(self, fn: FunctionInfo, call: ast.Call, argi: int, on_failure: bool = False) -> bool:
        tg = [t for t in self.engine.typer.call_targets(fn, call, dispatch=False) if isinstance(t, FunctionInfo)]
        if not tg:
            return False
        ok = True
        for g in tg:
            if g.has_decorator("contextmanager", "asynccontextmanager") or isinstance(g.node, ast.Lambda):
                return False
            p = self._param_name(g, call, argi)
            if p is None:
                return False
            key = (g.qualname, argi, on_failure)
            if key not in self._closer:
                if key in self._busy:
                    return False
                self._busy.add(key)
                try:
                    self._closer[key] = self._all_exits_invoke(g, p, False, only_exc=on_failure)
                finally:
                    self._busy.discard(key)
            ok = ok and self._closer[key]
        return ok

    def is_self_closer(self, fn: FunctionInfo, call: ast.Call, expr: str) -> bool:
        tg = [t for t in self.engine.typer.call_targets(fn, call, dispatch=False) if isinstance(t, FunctionInfo)]
        if not tg:
            return False
        ok = True
        for g in tg:
            if g.cls is None or g.self_name is None or isinstance(g.node, ast.Lambda):
                return False
            e2 = g.self_name + "." + expr.split(".", 1)[1]
            key = (g.qualname, "self:" + e2)
            if key not in self._closer:
                if key in self._busy or g is fn:
                    return False
                self._busy.add(key)
                try:
                    self._closer[key] = self._all_exits_invoke(g, e2, False)
                finally:
                    self._busy.discard(key)
            ok = ok and self._closer[key]
        return ok

    def is_closing_cm(self, fn: FunctionInfo, call: ast.Call, argi: int) -> bool:
        tg = [t for t in self.engine.typer.call_targets(fn, call, dispatch=False) if isinstance(t, FunctionInfo)]
        cms = [g for g in tg if g.has_decorator("contextmanager", "asynccontextmanager")]
        if not cms or len(cms) != len(tg):
            return False
        ok = True
        for g in cms:
            p = self._param_name(g, call, argi)
            if p is None:
                return False
            key = (g.qualname, argi)
            if key not in self._cm:
                self._cm[key] = self._all_exits_invoke(g, p, True)
            ok = ok and self._cm[key]
        return ok
