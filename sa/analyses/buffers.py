"""Helpers for the serializer buffer rules (DESIGN.md C01/C02/C07): linear forms, data-dependence closures, and the
bounded-read check for parsers working in a pre-allocated, partially filled receive buffer."""
from __future__ import annotations

import ast
from typing import Any

from ..db import FunctionInfo, dotted, own_nodes


def linear(e: ast.AST) -> dict[str, int] | None:
    """`a + 1 - b` -> {'a': 1, 'b': -1, '': 1}; None if the expression is not a linear form over names/ints."""
    if isinstance(e, ast.Constant) and isinstance(e.value, int) and not isinstance(e.value, bool):
        return {"": e.value}
    if isinstance(e, ast.Name):
        return {e.id: 1}
    if isinstance(e, ast.NamedExpr) and isinstance(e.target, ast.Name):
        return {e.target.id: 1}  # `(n := f()) > limit` compares the value just bound to n
    if isinstance(e, ast.Attribute):
        d = dotted(e)
        return {d: 1} if d else None  # `self.__limit`, `view.nbytes`: an opaque symbol
    if isinstance(e, ast.UnaryOp) and isinstance(e.op, ast.USub):
        r = linear(e.operand)
        return {k: -v for k, v in r.items()} if r is not None else None
    if isinstance(e, ast.BinOp) and isinstance(e.op, (ast.Add, ast.Sub)):
        a, b = linear(e.left), linear(e.right)
        if a is None or b is None:
            return None
        out = dict(a)
        for k, v in b.items():
            out[k] = out.get(k, 0) + (v if isinstance(e.op, ast.Add) else -v)
        return {k: v for k, v in out.items() if v != 0 or k == ""}
    if isinstance(e, ast.Call) and isinstance(e.func, ast.Name) and e.func.id == "len" and e.args and isinstance(e.args[0], ast.Name):
        return {f"len({e.args[0].id})": 1}
    return None


def assignments(fn: FunctionInfo) -> dict[str, list[ast.AST]]:
    """name -> value expressions bound to it (Assign / AnnAssign / AugAssign / walrus / tuple-unpack (whole value) / with-as)."""
    out: dict[str, list[ast.AST]] = {}

    def bind(t, v):
        if isinstance(t, ast.Name):
            out.setdefault(t.id, []).append(v)
        elif isinstance(t, (ast.Tuple, ast.List)):
            for x in t.elts:
                bind(x, v)

    for n in own_nodes(fn.node):
        if isinstance(n, ast.Assign):
            for t in n.targets:
                bind(t, n.value)
        elif isinstance(n, ast.AnnAssign) and n.value is not None:
            bind(n.target, n.value)
        elif isinstance(n, ast.AugAssign):
            bind(n.target, n.value)
        elif isinstance(n, ast.NamedExpr):
            bind(n.target, n.value)
        elif isinstance(n, (ast.With, ast.AsyncWith)):
            for it in n.items:
                if it.optional_vars is not None:
                    bind(it.optional_vars, it.context_expr)
        elif isinstance(n, (ast.For, ast.AsyncFor)):
            bind(n.target, n.iter)
    return out


def yield_vars(fn: FunctionInfo) -> set[str]:
    """names that receive (directly or by +=) the value sent into the generator: the *received length / data* variables"""
    out = set()
    for name, vals in assignments(fn).items():
        for v in vals:
            if any(isinstance(x, (ast.Yield, ast.YieldFrom)) for x in ast.walk(v)):
                out.add(name)
    return out


def deps(fn: FunctionInfo, expr: ast.AST, depth: int = 6) -> set[str]:
    """transitive closure of names `expr` is data-dependent on (flow-insensitive, within the function)"""
    asg = assignments(fn)
    seen: set[str] = set()
    todo = [x.id for x in ast.walk(expr) if isinstance(x, ast.Name)]
    # attribute reads on self count as their dotted text
    seen |= {dotted(x) for x in ast.walk(expr) if isinstance(x, ast.Attribute) and dotted(x)}
    while todo:
        n = todo.pop()
        if n in seen:
            continue
        seen.add(n)
        for v in asg.get(n, []):
            todo += [x.id for x in ast.walk(v) if isinstance(x, ast.Name)]
            seen |= {dotted(x) for x in ast.walk(v) if isinstance(x, ast.Attribute) and dotted(x)}
            if any(isinstance(x, (ast.Yield, ast.YieldFrom)) for x in ast.walk(v)):
                seen.add("<yield>")
    return seen


class BoundedRead:
    """C02.bound: in a generator that parses a pre-allocated buffer `B`, every read of B (or of a view of B) is bounded
    by a received-length variable."""

    SAFE_CALLEES = {"memoryview", "len", "isinstance", "id"}

    def __init__(self, engine, fn: FunctionInfo, buffer_param: str, bounded_callees: set[str]) -> None:
        self.engine = engine
        self.fn = fn
        self.B = {buffer_param}
        self.asg = assignments(fn)
        self.bounded_callees = bounded_callees
        # aliases / views of the buffer
        changed = True
        while changed:
            changed = False
            for name, vals in self.asg.items():
                if name in self.B:
                    continue
                for v in vals:
                    if isinstance(v, ast.Call) and getattr(v.func, "id", getattr(v.func, "attr", "")) in ("memoryview", "cast") and any(isinstance(a, ast.Name) and a.id in self.B for a in ast.walk(v)):
                        self.B.add(name)
                        changed = True
                    elif isinstance(v, ast.Name) and v.id in self.B:
                        self.B.add(name)
                        changed = True
        self.N = yield_vars(fn)  # received lengths (and tuple results of delegated scanners)
        self.scanner_results = {name for name, vals in self.asg.items() if vals and all(isinstance(v, ast.YieldFrom) for v in vals)}
        self.bounded = set(self.N)
        self._grow_bounded()
        self.sites: list[tuple[ast.AST, bool, str]] = []

    def _is_bounded_expr(self, e: ast.AST | None) -> bool:
        if e is None:
            return False
        if isinstance(e, ast.Name):
            return e.id in self.bounded
        if isinstance(e, ast.Constant) and isinstance(e.value, int):
            return False
        if isinstance(e, ast.IfExp):
            return self._is_bounded_expr(e.body) and self._is_bounded_expr(e.orelse)
        if isinstance(e, ast.Call) and isinstance(e.func, ast.Name) and e.func.id == "min" and e.args:
            return any(self._is_bounded_expr(a) for a in e.args)
        lin = linear(e)
        if lin is not None:
            names = [k for k in lin if k and not k.startswith("len(")]
            # a field of a delegated scanner's result (`found = yield from scan(...)`; `found.sepidx`) is trusted like the
            # elements of its unpacked tuple
            bnd = lambda n: n in self.bounded or ("." in n and n.split(".")[0] in self.scanner_results)
            return bool(names) and all(bnd(n) or n in self.sep_lens for n in names) and any(bnd(n) for n in names)
        return False

    def _grow_bounded(self) -> None:
        # separator lengths: len(<param>) of a bytes parameter
        self.sep_lens = {name for name, vals in self.asg.items() for v in vals
                         if isinstance(v, ast.Call) and getattr(v.func, "id", "") == "len" and v.args and isinstance(v.args[0], ast.Name) and v.args[0].id not in self.B}
        changed = True
        while changed:
            changed = False
            for name, vals in self.asg.items():
                if name in self.bounded or name in self.B:
                    continue
                ok = True
                for v in vals:
                    if isinstance(v, ast.Call) and isinstance(v.func, ast.Attribute) and v.func.attr in ("find", "index") and dotted(v.func.value) in self.B:
                        ok = ok and len(v.args) >= 3 and self._is_bounded_expr(v.args[2])
                    elif isinstance(v, ast.Constant) and isinstance(v.value, int) and v.value <= 0:
                        ok = ok and True  # initial 0 / -1 sentinel
                    else:
                        ok = ok and self._is_bounded_expr(v)
                if ok and vals:
                    self.bounded.add(name)
                    changed = True
        # `while N < v:` ... after the loop v <= N
        for n in own_nodes(self.fn.node):
            if isinstance(n, ast.While) and isinstance(n.test, ast.Compare) and len(n.test.ops) == 1 and isinstance(n.test.ops[0], ast.Lt):
                l, r = n.test.left, n.test.comparators[0]
                if isinstance(l, ast.Name) and l.id in self.N and isinstance(r, ast.Name):
                    self.bounded.add(r.id)

    def check(self) -> list[tuple[ast.AST, str]]:
        bad: list[tuple[ast.AST, str]] = []
        for n in own_nodes(self.fn.node):
            if isinstance(n, ast.Subscript) and isinstance(n.value, ast.Name) and n.value.id in self.B and isinstance(n.ctx, ast.Load):
                if isinstance(n.slice, ast.Slice):
                    up = n.slice.upper
                    ok = up is not None and self._is_bounded_expr(up)
                    self.sites.append((n, ok, "slice"))
                    if not ok:
                        bad.append((n, f"`{ast.unparse(n)}` reads the pre-allocated buffer up to {'its end' if up is None else ast.unparse(up)}, which is not bounded by the received length: never-received (stale) bytes take part in the parse"))
                else:
                    ok = self._is_bounded_expr(n.slice)
                    self.sites.append((n, ok, "index"))
            if isinstance(n, ast.Call):
                f = n.func
                if isinstance(f, ast.Attribute) and isinstance(f.value, ast.Name) and f.value.id in self.B and f.attr in ("find", "index", "rfind", "count", "startswith", "endswith", "tobytes", "hex", "decode"):
                    ok = f.attr in ("find", "index", "rfind", "count") and len(n.args) >= 3 and self._is_bounded_expr(n.args[2])
                    self.sites.append((n, ok, "search"))
                    if not ok:
                        bad.append((n, f"`{ast.unparse(n)[:80]}` searches / reads the whole pre-allocated buffer instead of the received part"))
                else:
                    name = f.attr if isinstance(f, ast.Attribute) else getattr(f, "id", "")
                    for a in list(n.args) + [k.value for k in n.keywords]:
                        if isinstance(a, ast.Name) and a.id in self.B and name not in self.SAFE_CALLEES and name not in self.bounded_callees:
                            self.sites.append((n, False, "escape"))
                            bad.append((n, f"the whole pre-allocated buffer `{a.id}` is handed to `{name}()`, which is not known to read only the received part"))
        return bad


def through_local(fn: FunctionInfo, expr: ast.AST | None) -> ast.AST | None:
    """`x` -> the single value bound to local `x` (so that `v = f(); return v` is read like `return f()`)"""
    seen = 0
    while isinstance(expr, ast.Name) and seen < 4:
        vals = assignments(fn).get(expr.id, [])
        if len(vals) != 1:
            break
        expr = vals[0]
        seen += 1
    return expr
