"""Atomic-section typestate: is there a may-suspend point on some path between a start atom and an end atom?
(DESIGN.md section 2.5 'atomic-section'; used by C12.tls, C16.atomic, C18.refuse, C19)."""
from __future__ import annotations

import ast
from typing import Any, Callable

from ..exc import CANCELLED
from ..flow import FnExit, ForIter, WithEnter, WithExit
from .base import RuleAnalysis


class AtomicSection(RuleAnalysis):
    tokens = ("Exception", CANCELLED)

    def __init__(self, engine, start: Callable[[Any], bool] | None, end: Callable[[Any], bool], armed_at_entry: bool = False,
                 end_at_exit: bool = False) -> None:
        super().__init__(engine)
        self.start = start
        self.end = end
        self.armed_at_entry = armed_at_entry
        self.end_at_exit = end_at_exit
        self.ends: list[tuple[Any, str]] = []  # (end atom, state when reached)
        self.breaks: list[Any] = []  # suspension atoms met while armed
        self.starts: list[Any] = []

    def initial(self, fn):
        return ["armed" if self.armed_at_entry else "idle"]

    def may_raise(self, node, fact):
        if isinstance(node, ast.Await) or (isinstance(node, (WithEnter, ForIter)) and node.is_async):
            return self.tokens
        if isinstance(node, ast.Call):
            return ["Exception"]
        return []

    def _suspends(self, node: Any) -> bool:
        if isinstance(node, ast.Await) or (isinstance(node, (WithEnter, WithExit, ForIter)) and node.is_async):
            return self.engine.summaries.atom_may_suspend(self.fn, node)
        if isinstance(node, (ast.Yield, ast.YieldFrom)):
            return True
        return False

    def transfer(self, node: Any, fact):
        if self.end(node) or (self.end_at_exit and isinstance(node, (FnExit, ast.Return))):
            self.ends.append((node, fact))
            return ["idle"] if not (self.start and self.start(node)) else ["armed"]
        if self.start is not None and self.start(node):
            if node not in self.starts:
                self.starts.append(node)
            return ["armed"]
        if fact == "armed" and self._suspends(node):
            if node not in self.breaks:
                self.breaks.append(node)
            return ["broken"]
        return [fact]
