"""Constant propagation through small pure functions (ints, None, bool, tuples; straight-line code with `if` on constants).
Used to decide relations between configuration constants (buffer size vs. water marks, datagram buffer size) from the source.
Everything that is not a compile-time constant evaluates to UNKNOWN and makes the caller's rule record `evaluated: false`."""
from __future__ import annotations

import ast
from typing import Any

from ..db import FunctionInfo, dotted

UNKNOWN = object()
RAISES = object()


class _Return(Exception):
    def __init__(self, value):
        self.value = value


class ConstEval:
    def __init__(self, engine, fn: FunctionInfo, env: dict[str, Any] | None = None, self_attrs: dict[str, Any] | None = None, depth: int = 0) -> None:
        self.engine, self.fn, self.depth = engine, fn, depth
        self.env: dict[str, Any] = dict(env or {})
        self.self_attrs: dict[str, Any] = self_attrs if self_attrs is not None else {}

    # ---------------------------------------------------------------- expressions
    def expr(self, e: ast.AST) -> Any:
        if isinstance(e, ast.Constant):
            return e.value if isinstance(e.value, (int, bool, type(None), str, bytes)) else UNKNOWN
        if isinstance(e, ast.Name):
            return self.env.get(e.id, UNKNOWN)
        if isinstance(e, ast.Attribute):
            d = dotted(e)
            if d and self.fn.self_name and d.startswith(self.fn.self_name + "."):
                key = d[len(self.fn.self_name) + 1:]
                if key in self.self_attrs:
                    return self.self_attrs[key]
                return self._class_const(key)
            return UNKNOWN
        if isinstance(e, ast.Tuple):
            vals = [self.expr(x) for x in e.elts]
            return UNKNOWN if any(v is UNKNOWN for v in vals) else tuple(vals)
        if isinstance(e, ast.UnaryOp):
            v = self.expr(e.operand)
            if v is UNKNOWN:
                return UNKNOWN
            if isinstance(e.op, ast.Not):
                return not v
            if isinstance(e.op, ast.USub) and isinstance(v, int):
                return -v
            return UNKNOWN
        if isinstance(e, ast.BinOp):
            a, b = self.expr(e.left), self.expr(e.right)
            if a is UNKNOWN or b is UNKNOWN or not isinstance(a, int) or not isinstance(b, int):
                return UNKNOWN
            try:
                return {ast.Add: a.__add__, ast.Sub: a.__sub__, ast.Mult: a.__mul__, ast.FloorDiv: a.__floordiv__, ast.LShift: a.__lshift__, ast.Mod: a.__mod__}[type(e.op)](b)
            except (KeyError, ZeroDivisionError, ValueError):
                return UNKNOWN
        if isinstance(e, ast.BoolOp):
            vals = []
            for x in e.values:
                v = self.expr(x)
                if v is UNKNOWN:
                    return UNKNOWN
                vals.append(v)
                if isinstance(e.op, ast.And) and not v:
                    return v
                if isinstance(e.op, ast.Or) and v:
                    return v
            return vals[-1]
        if isinstance(e, ast.Compare):
            left = self.expr(e.left)
            for op, c in zip(e.ops, e.comparators):
                right = self.expr(c)
                if left is UNKNOWN or right is UNKNOWN:
                    return UNKNOWN
                try:
                    r = {ast.Is: lambda a, b: a is b, ast.IsNot: lambda a, b: a is not b, ast.Eq: lambda a, b: a == b, ast.NotEq: lambda a, b: a != b, ast.Lt: lambda a, b: a < b,
                         ast.LtE: lambda a, b: a <= b, ast.Gt: lambda a, b: a > b, ast.GtE: lambda a, b: a >= b}[type(op)](left, right)
                except (KeyError, TypeError):
                    return UNKNOWN
                if not r:
                    return False
                left = right
            return True
        if isinstance(e, ast.Call):
            return self.call(e)
        return UNKNOWN

    def _class_const(self, attr: str) -> Any:
        ci = self.fn.cls
        if ci is None:
            return UNKNOWN
        for c in ci.mro():
            for st in c.node.body:
                tgt = st.target if isinstance(st, ast.AnnAssign) else (st.targets[0] if isinstance(st, ast.Assign) and len(st.targets) == 1 else None)
                if isinstance(tgt, ast.Name) and tgt.id == attr and getattr(st, "value", None) is not None:
                    return ConstEval(self.engine, self.fn).expr(st.value) if not isinstance(st.value, (ast.Name, ast.Attribute)) else UNKNOWN
        return UNKNOWN

    def call(self, c: ast.Call) -> Any:
        if self.depth >= 3:
            return UNKNOWN
        name = c.func.id if isinstance(c.func, ast.Name) else None
        if name in ("min", "max") and c.args and not c.keywords:
            vals = [self.expr(a) for a in c.args]
            return UNKNOWN if any(v is UNKNOWN or not isinstance(v, int) for v in vals) else (min if name == "min" else max)(vals)
        tg = [t for t in self.engine.typer.call_targets(self.fn, c, dispatch=False) if isinstance(t, FunctionInfo) and not isinstance(t.node, ast.Lambda)]
        if len(tg) != 1 or tg[0].is_generator or tg[0].is_async:
            return UNKNOWN
        callee = tg[0]
        params = [a.arg for a in callee.node.args.posonlyargs + callee.node.args.args]
        env = {}
        for p, a in zip(params, c.args):
            env[p] = self.expr(a)
        for k in c.keywords:
            if k.arg:
                env[k.arg] = self.expr(k.value)
        if any(p not in env for p in params) or callee.node.args.vararg or callee.node.args.kwarg:
            return UNKNOWN
        return ConstEval(self.engine, callee, env, {}, self.depth + 1).run()

    # ---------------------------------------------------------------- statements
    def run(self) -> Any:
        try:
            r = self.block(self.fn.node.body)
        except _Return as ret:
            return ret.value
        return None if r is None else r

    def block(self, stmts) -> Any:
        for st in stmts:
            if isinstance(st, ast.Expr) and isinstance(st.value, ast.Constant):
                continue
            if isinstance(st, ast.Return):
                raise _Return(self.expr(st.value) if st.value is not None else None)
            if isinstance(st, ast.Raise):
                raise _Return(RAISES)
            if isinstance(st, (ast.Assign, ast.AnnAssign)):
                if getattr(st, "value", None) is None:
                    continue
                v = self.expr(st.value)
                for t in (st.targets if isinstance(st, ast.Assign) else [st.target]):
                    self.assign(t, v)
                continue
            if isinstance(st, ast.If):
                t = self.expr(st.test)
                if t is UNKNOWN:
                    raise _Return(UNKNOWN)
                self.block(st.body if t else st.orelse)
                continue
            if isinstance(st, (ast.Pass, ast.Assert)):
                continue
            raise _Return(UNKNOWN)
        return None

    def assign(self, t, v) -> None:
        if isinstance(t, ast.Name):
            self.env[t.id] = v
        elif isinstance(t, ast.Tuple):
            if isinstance(v, tuple) and len(v) == len(t.elts):
                for x, y in zip(t.elts, v):
                    self.assign(x, y)
            else:
                for x in t.elts:
                    self.assign(x, UNKNOWN)
        elif isinstance(t, ast.Attribute):
            d = dotted(t)
            if d and self.fn.self_name and d.startswith(self.fn.self_name + "."):
                self.self_attrs[d[len(self.fn.self_name) + 1:]] = v
