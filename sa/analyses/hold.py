"""C10.hold: no un-shielded suspension (and no other exit) while a local variable holds received-but-undelivered
bytes / packets.

Fact = frozenset of local names currently *holding*.  A name starts holding when it is bound from a source
(a call that removes data from a place that will not give it again); it stops when the value is handed to a
sink (argument of a delivering call, `return` / `yield` value).  Findings:
  * a suspension point that can be cancelled while something is held
  * the holder is killed (re-bound / deleted) or the function is left with the value still held
"""
from __future__ import annotations

import ast
from typing import Any, Iterable

from ..db import FunctionInfo, dotted
from ..exc import CANCELLED
from ..flow import FnExit, ForIter, WithEnter, WithExit, call_of
from .base import RuleAnalysis

# method names that take data out of their source, by receiver kind
SOURCE_METHODS = {
    "recv", "recv_into", "recvfrom", "recv_from", "receive_data", "receive_data_into", "recv_noblock", "recv_noblock_into",
    "popleft", "get_nowait", "get", "pop_datagram", "pop_datagram_no_wait", "readinto",
    "recv_packet", "recv_packet_from", "receive",
}
RET = "<return value>"
# awaits that drive the user's handler generator: cancellation there ends the handler's own task, there is no
# "later receive" on that generator (DESIGN C10, exemption table)
GENERATOR_DRIVERS = {"anext_without_asyncgen_hook", "asend", "athrow", "aclose", "anext"}
MARK = "!callexc"
CONSUMER_TYPES = {"StreamDataConsumer", "BufferedStreamDataConsumer"}
QUEUE_TYPES = {"deque", "Queue", "collections.deque", "asyncio.Queue", "asyncio.queues.Queue"}
# calls of callable *parameters* that are sources (function-specific, see DESIGN C10)
SOURCE_CALLABLE_PARAMS = {"ssl_object_method"}
# delivering calls
SINK_METHODS = {"next", "write", "put_nowait", "append", "appendleft", "set_result", "feed", "buffer_updated", "extend", "send", "asend",
                "build_packet_from_datagram", "build_packet_from_buffer", "build_packet_from_chunks", "__parse_datagram",
                "handle", "start_soon"}  # hand-over to the per-datagram task (listener serve context)
SINK_WRAPPERS = {"SendAction", "ThrowAction", "bytes", "tuple", "memoryview"}


class HoldAnalysis(RuleAnalysis):
    tokens = ("OSError", "Exception", CANCELLED, "BaseException")
    inline_helpers = True  # a block extracted into a private helper (`self._build_packet(datagram)`) is interpreted in place

    def __init__(self, engine, sync_timeouts: bool = False) -> None:
        super().__init__(engine)
        self.sources: list[ast.AST] = []
        self.problems: list[tuple[Any, str, str]] = []  # (node, kind, var)
        self.sync_timeouts = sync_timeouts
        self.check_raisers = True
        self.packet_vars: set[str] = set()  # names holding a *packet* (any Python value, None and falsy values included)
        self.empty_is_data = False  # datagram semantics: an empty payload is a datagram like any other, `if not data` releases nothing

    def initial(self, fn: FunctionInfo):
        return [frozenset()]

    # ------------------------------------------------------------------ classification
    def is_source_call(self, call: ast.Call | None) -> bool:
        if call is None or self.fn is None:
            return False
        f = call.func
        if isinstance(f, ast.Name):
            return f.id in SOURCE_CALLABLE_PARAMS and any(a.arg == f.id for a in self.fn.params())
        if not isinstance(f, ast.Attribute):
            return False
        if f.attr == "next":
            ts = self.typer.expr_types(self.fn, f.value)
            return any(t.kind == "repo" and t.ref.name in CONSUMER_TYPES for t in ts)
        if f.attr in ("popleft", "get_nowait", "get", "pop") and any(w in (dotted(f.value) or "").lower() for w in ("exception", "error", "waiter")):
            return False  # a queue of errors / waiters, not of received data
        if f.attr in ("popleft", "get_nowait", "get", "pop"):
            ts = self.typer.expr_types(self.fn, f.value)
            if f.attr == "pop" or not ts:
                return f.attr in ("popleft", "get_nowait") and not ts
            return any((t.kind == "ext" and (t.ref in QUEUE_TYPES or t.ref.split(".")[-1] in ("deque", "Queue"))) for t in ts)
        if f.attr in SOURCE_METHODS:
            return True
        # a driver that runs a callable parameter which is itself a source (`_retry_ssl_method(ssl_object.read, n)`): the value
        # it returns is what the passed reading method returned
        if call.args and isinstance(call.args[0], ast.Attribute) and call.args[0].attr in ("read", "recv", "read_into", "recv_into"):
            try:
                tg = self.typer.call_targets(self.fn, call)
            except Exception:  # noqa: BLE001
                tg = []
            for t in tg:
                ps = getattr(t, "params", None)
                if ps is not None and any(a.arg in SOURCE_CALLABLE_PARAMS for a in t.params()):
                    return True
        return False

    def source_in(self, e: ast.AST | None) -> ast.Call | None:
        """The source call whose value `e` is (through await / walrus / subscript / tuple-unpack wrappers)."""
        while isinstance(e, (ast.Await, ast.NamedExpr)):
            e = e.value
        if isinstance(e, ast.Call) and self.is_source_call(e):
            return e
        return None

    def _names(self, e: ast.AST | None) -> set[str]:
        return {n.id for n in ast.walk(e) if isinstance(n, ast.Name)} if e is not None else set()

    # ------------------------------------------------------------------ transfer
    def transfer(self, node: Any, fact):
        held: frozenset = fact
        held = held - {MARK}
        if isinstance(node, WithExit) and node.kind != "ret":
            held = held - {RET}
        if held and self.fn is not None and (isinstance(node, ast.Await) or (isinstance(node, (WithEnter, WithExit, ForIter)) and node.is_async)):
            c0 = call_of(node)
            drv = c0 is not None and (c0.func.attr if isinstance(c0.func, ast.Attribute) else getattr(c0.func, "id", "")) in GENERATOR_DRIVERS
            if not drv and self.engine.summaries.atom_may_cancel(self.fn, node):
                self.problems.append((node, "suspend", ",".join(sorted(held))))
        if held and isinstance(node, ast.Call) and self.check_raisers and not self.is_source_call(node) and not (self._delivered_by(node) & held) \
                and not (self.interp and self.interp.ctx.handler_tokens):
            for t in self.targets(node, dispatch=False):
                if isinstance(t, FunctionInfo) and explicit_raiser(self.engine, t):
                    self.problems.append((node, "raiser", ",".join(sorted(held))))
                    break
        if isinstance(node, (ast.Assign, ast.AnnAssign, ast.NamedExpr)):
            value = node.value
            tgts = node.targets if isinstance(node, ast.Assign) else [node.target]
            names = set()
            for t in tgts:
                for x in (t.elts if isinstance(t, (ast.Tuple, ast.List)) else [t]):
                    if isinstance(x, ast.Name) and not x.id.startswith("_"):
                        names.add(x.id)
            if value is None:
                return [held]
            src = self.source_in(value)
            killed = (names & held)
            if src is not None:
                if src not in self.sources:
                    self.sources.append(src)
                nm = src.func.attr if isinstance(src.func, ast.Attribute) else ""
                if nm in ("next", "recv_packet", "recv_packet_from", "receive"):
                    self.packet_vars |= names
                for k in killed:
                    self.problems.append((node, "killed", k))
                return [(held - killed) | frozenset(names)]
            # plain re-binding: moving the value to another name keeps it held under the new name
            moved = self._names(value) & held
            if moved and names and not isinstance(value, ast.Constant):
                return [(held - killed) | frozenset(names) if not _is_projection(value) else held]
            if killed:
                for k in killed:
                    self.problems.append((node, "killed", k))
                return [held - killed]
            return [held]
        if isinstance(node, ast.Delete):
            names = {t.id for t in node.targets if isinstance(t, ast.Name)}
            for k in names & held:
                self.problems.append((node, "killed", k))
            return [held - names]
        if isinstance(node, (ast.Return,)):
            held = held - self._names(node.value)
            # the value travels through the exits of enclosing `async with` blocks before it reaches the caller
            v = node.value
            if v is not None and self.interp is not None and any(a for _, a in self.interp.ctx.with_stack):
                if self.source_in(v) is not None or (self._names(v) & fact):
                    if self.source_in(v) is not None and self.source_in(v) not in self.sources:
                        self.sources.append(self.source_in(v))
                    held = held | {RET}
            return [held]
        if isinstance(node, FnExit):
            return [held - {RET}]
        if isinstance(node, (ast.Yield, ast.YieldFrom)):
            return [held - self._names(node.value)]
        if isinstance(node, ast.AugAssign):
            return [held - self._names(node.value)]
        call = call_of(node)
        if call is not None:
            delivered = self._delivered_by(call)
            if delivered & held:
                return [held - delivered]
        return [held]

    def _delivered_by(self, call: ast.Call) -> set[str]:
        name = call.func.attr if isinstance(call.func, ast.Attribute) else (call.func.id if isinstance(call.func, ast.Name) else "")
        if name in SINK_METHODS or name in SINK_WRAPPERS or mangled_tail(name) in SINK_METHODS:
            out = self._names(call.func.value) if isinstance(call.func, ast.Attribute) and name in ("asend", "athrow") else set()
            for a in list(call.args) + [k.value for k in call.keywords]:
                out |= self._names(a)
            return out
        return set()

    def raise_fact(self, node: Any, fact, token: str):
        call = call_of(node)
        fact = fact - {MARK}
        if call is not None:
            d = self._delivered_by(call)
            if d & fact:
                fact = fact - d
            nm = call.func.attr if isinstance(call.func, ast.Attribute) else getattr(call.func, "id", "")
            if nm in GENERATOR_DRIVERS:
                return [frozenset()]  # the user's handler generator failed / finished: it took responsibility
        if token != CANCELLED:
            # an ordinary exception: not a cancellation/timeout exit (the rule is about suspension points);
            # marked so that the exit check ignores it
            return [fact | {MARK}] if fact else [fact]
        return [fact]

    def handler_entry(self, handler, token, fact):
        return [fact - {MARK}]

    def may_raise(self, node: Any, fact) -> Iterable[str]:
        toks = list(super().may_raise(node, fact))
        if isinstance(node, ast.Await) and self.fn is not None:
            c = call_of(node)
            nm = (c.func.attr if isinstance(c.func, ast.Attribute) else getattr(c.func, "id", "")) if c is not None else ""
            if nm in ("coro_yield", "cancel_shielded_coro_yield", "sleep", "checkpoint", "cancel_shielded_checkpoint"):
                toks = [CANCELLED]  # a pure checkpoint raises nothing but a cancellation
            if CANCELLED in toks and not self.engine.summaries.atom_may_cancel(self.fn, node):
                toks = [t for t in toks if t != CANCELLED]
        return toks

    def branch(self, test: ast.AST, fact):
        held: frozenset = fact
        if not held:
            return [fact], [fact]
        if any(isinstance(n, ast.Name) and n.id in self.packet_vars for n in ast.walk(test)):
            return [fact], [fact]  # a packet may legitimately be None / falsy: no emptiness refinement
        t = test
        neg = False
        while isinstance(t, ast.UnaryOp) and isinstance(t.op, ast.Not):
            neg = not neg
            t = t.operand
        if isinstance(t, ast.NamedExpr) and isinstance(t.target, ast.Name):
            t = t.target  # `if not (chunk := await recv()):` tests the value just bound
        name = None
        empty_when_false = False
        # a count compared with a constant, in any spelling: which side means "nothing was read" (count <= 0)?
        from ..norm import cmp_canon
        cc = cmp_canon(None, t) if isinstance(t, ast.Compare) and not (isinstance(t.comparators[0], ast.Constant) and t.comparators[0].value is None) else None
        if cc is not None and len([k for k in cc[0] if k]) == 1 and not self.empty_is_data:
            (var, coef), const = next(kv for kv in cc[0].items() if kv[0]), cc[0].get("", 0)
            var = var[4:-1] if var.startswith("len(") else var
            side = None  # True: the test being true means empty ; False: the test being false means empty
            if cc[1] == ">" and coef == 1 and const in (0, ):
                side = False      # x > 0
            elif cc[1] == ">=" and coef == 1 and const == -1:
                side = False      # x >= 1
            elif cc[1] == ">=" and coef == -1 and const == 0:
                side = True       # x <= 0
            elif cc[1] == ">" and coef == -1 and const == 1:
                side = True       # x < 1
            elif cc[1] == "==" and const == 0:
                side = True       # x == 0
            elif cc[1] == "!=" and const == 0:
                side = False      # x != 0
            if side is not None and var in held:
                empty, full = [held - {var}], [held]
                tr, fl = (empty, full) if side else (full, empty)
                return (fl, tr) if neg else (tr, fl)
        if isinstance(t, ast.Name):
            name, empty_when_false = t.id, True  # `if x:` false => x is empty / None
        elif isinstance(t, ast.Compare) and len(t.ops) == 1:
            left = t.left
            if isinstance(left, ast.NamedExpr):
                left = left.target
            if isinstance(left, ast.Name):
                c = t.comparators[0]
                if isinstance(t.ops[0], ast.Gt) and isinstance(c, ast.Constant) and c.value == 0:
                    name, empty_when_false = left.id, True
                elif isinstance(t.ops[0], ast.Lt) and isinstance(c, ast.Constant) and c.value == 0:
                    tr, fl = [held - {left.id}], [held]  # a negative count is an invalid result, not data
                    return (fl, tr) if neg else (tr, fl)
                elif isinstance(t.ops[0], ast.Is) and isinstance(c, ast.Constant) and c.value is None:
                    name, empty_when_false = left.id, False  # `x is None` true => nothing held
                    tr, fl = [held - {name}], [held]
                    return (fl, tr) if neg else (tr, fl)
                elif isinstance(t.ops[0], ast.IsNot) and isinstance(c, ast.Constant) and c.value is None:
                    tr, fl = [held], [held - {left.id}]
                    return (fl, tr) if neg else (tr, fl)
        if name is not None and name in held and empty_when_false and not self.empty_is_data:
            tr, fl = [held], [held - {name}]
            return (fl, tr) if neg else (tr, fl)
        return [fact], [fact]


def explicit_raiser(engine, fn: FunctionInfo, depth: int = 0, seen: set | None = None) -> bool:
    """Does `fn` (transitively through resolved repo callees, depth <= 3) contain a `raise <something>`?"""
    seen = seen if seen is not None else set()
    if fn.qualname in seen or depth > 3 or isinstance(fn.node, ast.Lambda):
        return False
    seen.add(fn.qualname)
    from ..db import own_nodes
    for n in own_nodes(fn.node):
        if isinstance(n, ast.Raise) and n.exc is not None:
            e = n.exc.func if isinstance(n.exc, ast.Call) else n.exc
            nm = e.attr if isinstance(e, ast.Attribute) else getattr(e, "id", "")
            if nm in ("RuntimeError", "AssertionError", "TypeError", "ValueError", "NotImplementedError"):
                continue  # guards against API misuse: not an I/O outcome
            return True
        if isinstance(n, ast.Call):
            for t in engine.typer.call_targets(fn, n, dispatch=False):
                if isinstance(t, FunctionInfo) and explicit_raiser(engine, t, depth + 1, seen):
                    return True
    return False


def mangled_tail(name: str) -> str:
    return name


def _is_projection(value: ast.AST) -> bool:
    """`y = x[...]`, `y = len(x)`, `y = x.attr`: reads of x that do not move it."""
    return isinstance(value, (ast.Subscript, ast.Attribute, ast.Compare, ast.BoolOp, ast.UnaryOp)) or \
        (isinstance(value, ast.Call) and isinstance(value.func, ast.Name) and value.func.id in ("len", "bool", "isinstance"))
