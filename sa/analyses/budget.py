"""Timeout-budget typestate (DESIGN.md C11): the variable holding the remaining budget is
  fresh  - accounts for all the waiting done so far
  stale  - a blocking call has consumed an unknown part of it since it was last (re)computed
  zero   - known to be 0 (cannot go lower)
Every *use* of a stale budget (handing it to another blocking call, yielding / returning / storing it as the
remaining budget) is a finding; a re-computation only refreshes it if its timer enclosed every blocking call
made since the budget was last fresh."""
from __future__ import annotations

import ast
from typing import Any

from ..db import FunctionInfo, dotted, own_nodes
from ..flow import FnExit, WithEnter, WithExit, call_of
from .base import RuleAnalysis

BLOCKING = {
    "recv", "recv_into", "send", "send_all", "send_all_from_iterable", "_retry", "select", "acquire", "wait", "join", "recv_packet",
    "send_packet", "recv_from", "send_to", "receive", "recv_packet_from", "send_packet_to", "lock_with_timeout", "shutdown", "result",
    "run_coroutine", "run_sync",
}
SCOPES = {"timeout", "move_on_after"}  # backend.timeout(x): the scope consumes the budget while its body runs


def _cname(c):
    return (c.func.attr if isinstance(c.func, ast.Attribute) else getattr(c.func, "id", "")) if c is not None else ""


class Budget(RuleAnalysis):
    tokens = ("StopIteration", "OSError", "Exception")

    def __init__(self, engine, var: str) -> None:
        super().__init__(engine)
        self.var = var  # name or dotted attribute (self.__timeout)
        self.viol: list[tuple[str, Any, str]] = []
        self.blocking_sites: list[Any] = []
        self.recomputes: list[Any] = []
        self.timers: set[str] = set()
        self.aliases: set[str] = set()
        self.zero_waits: list[Any] = []

    def initial(self, fn):
        for n in own_nodes(fn.node):
            if isinstance(n, (ast.Assign, ast.AnnAssign)) and getattr(n, "value", None) is not None:
                tg = n.targets if isinstance(n, ast.Assign) else [n.target]
                if any(isinstance(t, ast.Name) for t in tg) and ((isinstance(n.value, ast.Name) and n.value.id == self.var) or dotted(n.value) == self.var):
                    self.aliases |= {t.id for t in tg if isinstance(t, ast.Name) and t.id != self.var}
        for n in own_nodes(fn.node):
            if isinstance(n, ast.With):
                for it in n.items:
                    if isinstance(it.context_expr, ast.Call) and _cname(it.context_expr) == "ElapsedTime" and isinstance(it.optional_vars, ast.Name):
                        self.timers.add(it.optional_vars.id)
                    # `timer = ElapsedTime()` ... `with timer:` (the context manager returns itself)
                    if isinstance(it.context_expr, ast.Name) and it.optional_vars is None:
                        for a in own_nodes(fn.node):
                            if isinstance(a, (ast.Assign, ast.AnnAssign)) and isinstance(getattr(a, "value", None), ast.Call) and _cname(a.value) == "ElapsedTime" \
                                    and any(isinstance(t, ast.Name) and t.id == it.context_expr.id for t in (a.targets if isinstance(a, ast.Assign) else [a.target])):
                                self.timers.add(it.context_expr.id)
        # successors: locals that take over the remaining budget (`rest = timer.recompute_timeout(timeout)`, `with lock_with_timeout(l, timeout) as rest`)
        self.family = {self.var}
        self.successor_at: dict[str, int] = {}
        def derived(v) -> bool:
            """v evaluates to (a fresh reading of) the remaining budget: a family member itself, a re-computation from one, a clamp of one"""
            if isinstance(v, ast.Name):
                return v.id in self.family
            if isinstance(v, ast.Call) and _cname(v) in ("recompute_timeout", "max", "min", "validate_timeout_delay", "float"):
                return any(self._mentions(a) for a in v.args)
            return False

        changed = True
        while changed:
            changed = False
            binds: dict[str, list] = {}
            for n in own_nodes(fn.node):
                if isinstance(n, (ast.Assign, ast.AnnAssign)) and getattr(n, "value", None) is not None:
                    t0 = n.targets[0] if isinstance(n, ast.Assign) else n.target
                    if isinstance(t0, ast.Name):
                        binds.setdefault(t0.id, []).append((n, derived(n.value) and not isinstance(n.value, ast.Name), derived(n.value)))
                if isinstance(n, ast.With):
                    for it in n.items:
                        if isinstance(it.context_expr, ast.Call) and _cname(it.context_expr) == "lock_with_timeout" and isinstance(it.optional_vars, ast.Name):
                            ok_ = any(self._mentions(a) for a in it.context_expr.args)
                            binds.setdefault(it.optional_vars.id, []).append((n, ok_, ok_))
            for name, bl in binds.items():
                if name in self.family:
                    continue
                # every binding is budget-derived and at least one is a real hand-over (re-computation / `as`), not only a copy
                if all(d for _, _, d in bl) and any(h for _, h, _ in bl):
                    self.family.add(name)
                    self.aliases.discard(name)
                    self.successor_at[name] = min(n.lineno for n, h, _ in bl if h)
                    changed = True
        # an older member of the family read after a successor took over holds an out-of-date value
        for name, line in self.successor_at.items():
            older = self.family - {name} - {k for k, l_ in self.successor_at.items() if l_ > line}
            for n in own_nodes(fn.node):
                if isinstance(n, ast.Call) and _cname(n) in BLOCKING and getattr(n, "lineno", 0) > line:
                    for a in list(n.args) + [k.value for k in n.keywords]:
                        if isinstance(a, ast.Name) and a.id in older and a.id != name:
                            self.viol.append(("C11.thread", n, f"`{a.id}` is handed to `{_cname(n)}()` although the remaining budget now lives in `{name}`: the time already spent is ignored"))
        return [("fresh", frozenset(), frozenset())]

    def may_raise(self, node, fact):
        c = call_of(node)
        if c is not None and _cname(c) == "next":
            return ["StopIteration"]
        if c is not None and _cname(c) in BLOCKING:
            return ["OSError"]
        if isinstance(node, WithEnter):
            return []
        if isinstance(node, ast.Call) and not (isinstance(node.func, ast.Name) and node.func.id in ("len", "isinstance", "bool", "min", "max", "float", "int")):
            return ["Exception"]
        return []

    def raise_fact(self, node, fact, token):
        """a blocking call that fails has waited first: the exception edge carries the state *after* the call (budget partly spent)"""
        c = call_of(node)
        if isinstance(node, ast.Call) and c is not None and _cname(c) in BLOCKING and fact[0] == "fresh" \
                and any(self._mentions(a) for a in list(c.args) + [k.value for k in c.keywords]):
            return [("stale", fact[1], fact[2])]
        return [fact]

    def _mentions(self, e) -> bool:
        if e is None:
            return False
        fam = getattr(self, "family", {self.var})
        for x in ast.walk(e):
            if (isinstance(x, ast.Name) and (x.id in fam or x.id in self.aliases)) or (isinstance(x, ast.Attribute) and dotted(x) == self.var):
                return True
        return False

    def _open_timers(self) -> frozenset:
        out = set()
        if self.interp is not None:
            for it, _ in self.interp.ctx.with_stack:
                if isinstance(it.optional_vars, ast.Name) and it.optional_vars.id in self.timers:
                    out.add(it.optional_vars.id)
                elif it.optional_vars is None and isinstance(it.context_expr, ast.Name) and it.context_expr.id in self.timers:
                    out.add(it.context_expr.id)
        return frozenset(out)

    def _is_target(self, t) -> bool:
        return (isinstance(t, ast.Name) and t.id in getattr(self, "family", {self.var})) or (isinstance(t, ast.Attribute) and dotted(t) == self.var)

    def _use(self, node, state, what):
        if state == "stale":
            self.viol.append(("C11.cycle", node, f"the budget `{self.var}` is {what} although a blocking call has consumed part of it since it was last (re)computed: the total wait can exceed the caller's timeout"))

    def transfer(self, node, fact):
        res = self._transfer(node, fact)
        out = []
        for r in res:
            out.append(r if len(r) == 3 else (r[0], r[1], fact[2]))
        # snapshots of the budget (`wait_time = timeout`): stale as soon as a blocking call ran, never refreshed by a
        # later re-computation of the budget itself
        c0 = call_of(node)
        blocking_now = (isinstance(node, ast.Call) and _cname(node) in BLOCKING and any(self._mentions(a) for a in list(node.args) + [k.value for k in node.keywords])) \
            or (isinstance(node, WithEnter) and isinstance(node.item.context_expr, ast.Call) and _cname(node.item.context_expr) == "lock_with_timeout")
        if blocking_now and c0 is not None or (blocking_now and isinstance(node, WithEnter)):
            cc = c0 if c0 is not None else node.item.context_expr
            used = {x.id for a in list(cc.args) + [k.value for k in cc.keywords] for x in ast.walk(a) if isinstance(x, ast.Name) and x.id in self.aliases}
            for al in used:
                if f"stale-alias:{al}" in fact[2]:
                    self.viol.append(("C11.thread", node, f"`{al}` is a copy of the budget taken before a blocking call: handing it to `{_cname(cc)}()` ignores the time already spent"))
            out = [(a, b, c | frozenset(f"stale-alias:{al}" for al in self.aliases)) for a, b, c in out]
        if isinstance(node, (ast.Assign, ast.AnnAssign)) and getattr(node, "value", None) is not None:
            tg = node.targets if isinstance(node, ast.Assign) else [node.target]
            for t in tg:
                if isinstance(t, ast.Name) and t.id in self.aliases:
                    out = [(a, b, frozenset(x for x in c if x != f"stale-alias:{t.id}")) for a, b, c in out]
        # latch flags: `self.x = True`
        if isinstance(node, ast.Assign) and isinstance(node.value, ast.Constant) and node.value.value is True:
            names = {dotted(t) for t in node.targets if isinstance(t, ast.Attribute)}
            out = [(a, b, c | frozenset(n for n in names if n)) for a, b, c in out]
        return out

    def _transfer(self, node, fact):
        state, cov = fact[0], fact[1]
        c = call_of(node)
        # ---- blocking primitives
        is_block = False
        args = []
        if isinstance(node, WithEnter) and isinstance(node.item.context_expr, ast.Call) and _cname(node.item.context_expr) == "lock_with_timeout":
            is_block, c = True, node.item.context_expr
        elif isinstance(node, ast.Call) and _cname(node) in BLOCKING and _cname(node) != "lock_with_timeout":
            is_block = True
        elif isinstance(node, ast.Call) and _cname(node) in SCOPES and isinstance(node.func, ast.Attribute) and any(self._mentions(a) for a in node.args):
            is_block = True
        if is_block and c is not None:
            args = list(c.args) + [k.value for k in c.keywords]
            uses = any(self._mentions(a) for a in args)
            if isinstance(node, WithEnter):
                if node not in self.blocking_sites:
                    self.blocking_sites.append(node)
                if uses:
                    self._use(node, state, "handed to `lock_with_timeout()`")
                ov = node.item.optional_vars
                if ov is not None and self._is_target(ov):
                    return [("fresh", frozenset(), fact[2])]  # the context manager yields the remaining budget
                return [("stale", frozenset(), fact[2])] if uses and state not in ("zero", "inf") else [fact]
            if _cname(c) == "acquire" and not uses:
                return [fact]  # non-blocking try-acquire
            if node not in self.blocking_sites:
                self.blocking_sites.append(node)
            if uses and state == "zero" and _cname(c) in ("select", "wait") and node not in self.zero_waits:
                self.zero_waits.append(node)
            if not uses and isinstance(node, ast.Call):
                # a repo callee with a `timeout` parameter that is given something else than the current budget
                for t in self.targets(c, dispatch=False):
                    if isinstance(t, FunctionInfo) and not isinstance(t.node, ast.Lambda):
                        pnames = [a.arg for a in t.params()]
                        if "timeout" in pnames:
                            given = next((k.value for k in c.keywords if k.arg == "timeout"), None)
                            if given is None:
                                idx = pnames.index("timeout") - (1 if t.cls is not None and t.parent is None and not t.has_decorator("staticmethod") else 0)
                                given = c.args[idx] if 0 <= idx < len(c.args) else None
                            if given is not None and not self._mentions(given):
                                self.viol.append(("C11.thread", node, f"`{_cname(c)}()` is given `{ast.unparse(given)}` instead of the current budget `{self.var}`"))
            if uses:
                self._use(node, state, f"handed to `{_cname(c)}()`")
                open_t = self._open_timers() if _cname(c) not in SCOPES else frozenset(self.timers)
                cov2 = open_t if state != "stale" else (cov & open_t)
                if state in ("zero", "inf"):
                    return [(state, frozenset())]
                return [("stale", cov2)]
            return [fact]
        # ---- re-computation / re-binding
        if isinstance(node, (ast.Assign, ast.AnnAssign)) and getattr(node, "value", None) is not None:
            tgts = node.targets if isinstance(node, ast.Assign) else [node.target]
            flat = []
            for t in tgts:
                flat += list(t.elts) if isinstance(t, ast.Tuple) else [t]
            if any(self._is_target(t) for t in flat):
                v = node.value
                vc = v if isinstance(v, ast.Call) else None
                if vc is not None and _cname(vc) == "recompute_timeout":
                    timer = dotted(vc.func.value) if isinstance(vc.func, ast.Attribute) else None
                    self.recomputes.append(node)
                    if not any(self._mentions(a) for a in vc.args):
                        self.viol.append(("C11.thread", node, f"the budget is re-computed from something else than the current `{self.var}`"))
                    if state == "stale" and timer not in cov:
                        self.viol.append(("C11.cycle", node, f"the budget is re-computed with timer `{timer}` which did not measure every blocking call made since it was last fresh"))
                        return [("stale", cov)]
                    return [("fresh", frozenset())]
                if vc is not None and _cname(vc) in BLOCKING:
                    return [("fresh", frozenset())]  # `x, timeout = self._retry(f, timeout)`: the callee hands back the remaining budget
                if vc is not None and _cname(vc) in ("validate_timeout_delay", "float", "min", "max"):
                    return [fact]
                if isinstance(v, ast.Constant) or (isinstance(v, ast.Attribute) and v.attr == "inf"):
                    if isinstance(v, ast.Constant) and v.value == 0:
                        return [("zero", frozenset())]
                    if state == "stale":
                        self.viol.append(("C11.thread", node, f"`{self.var}` is replaced by a fresh constant after part of the budget was consumed"))
                    return [("fresh", frozenset())]
                if self._mentions(v):
                    self._use(node, state, "copied")
                    return [fact]
                if state == "stale":
                    self.viol.append(("C11.thread", node, f"`{self.var}` is replaced by a value unrelated to the remaining budget"))
                return [("fresh", frozenset())]
            # storing the budget somewhere else while stale
            if self._mentions(node.value) and isinstance(node.value, (ast.Name, ast.Attribute, ast.Tuple)):
                self._use(node, state, "stored")
            return [fact]
        if isinstance(node, WithEnter):
            ov = node.item.optional_vars
            if isinstance(node.item.context_expr, ast.Call) and _cname(node.item.context_expr) == "lock_with_timeout" and ov is not None and self._is_target(ov):
                return [("fresh", frozenset())]
            return [fact]
        if isinstance(node, ast.Yield) and self._mentions(node.value):
            if self._recomputed_inline(node, node.value, state, cov):
                return [fact]
            self._use(node, state, "yielded as the remaining budget")
            return [fact]
        if isinstance(node, ast.Return) and node.value is not None:
            v = node.value
            elts = v.elts if isinstance(v, ast.Tuple) else [v]
            if any(self._recomputed_inline(node, x, state, cov) for x in elts):
                return [fact]
            if any(self._is_target(x) for x in elts):
                self._use(node, state, "returned as the remaining budget")
            return [fact]
        return [fact]

    def _recomputed_inline(self, node, v, state, cov) -> bool:
        """`yield timer.recompute_timeout(timeout)` / `return x, timer.recompute_timeout(timeout)`: the remaining budget is computed in
        the expression that hands it on (same obligations as `timeout = timer.recompute_timeout(timeout)` followed by `yield timeout`)"""
        while isinstance(v, ast.Call) and _cname(v) in ("max", "min", "float") and v.args:
            v = next((a for a in v.args if isinstance(a, ast.Call)), v.args[0])
        if not (isinstance(v, ast.Call) and _cname(v) == "recompute_timeout" and any(self._mentions(a) for a in v.args)):
            return False
        timer = dotted(v.func.value) if isinstance(v.func, ast.Attribute) else None
        self.recomputes.append(node)
        if state == "stale" and timer not in cov:
            self.viol.append(("C11.cycle", node, f"the budget is re-computed with timer `{timer}` which did not measure every blocking call made since it was last fresh"))
        return True

    def branch(self, test, fact):
        state, cov, flags = fact
        t = test
        neg = False
        while isinstance(t, ast.UnaryOp) and isinstance(t.op, ast.Not):
            neg = not neg
            t = t.operand
        d = dotted(t)
        if d is not None and d in flags:
            # latch known True: `while not self._eof_reached` cannot be entered again
            return (None, [fact]) if neg else ([fact], None)
        from .base import none_test
        nt = none_test(test)
        if nt and state == "stale" and nt[0] in cov:
            # `if elapsed is not None:` on a timer that has measured the blocking call of this very path: it was entered, so it is bound
            return (None, [fact]) if nt[1] else ([fact], None)
        if nt and nt[0] == self.var:
            inf = ("inf", frozenset(), flags)  # None = no deadline: nothing to account for
            return ([inf], [fact]) if nt[1] else ([fact], [inf])
        # `timeout > 0` false / `timeout <= 0` true / `timeout == 0` true  => zero
        from ..norm import cmp_canon
        cc = cmp_canon(None, test)
        if cc is not None and len([k for k in cc[0] if k]) == 1 and cc[0].get("", 0) == 0:
            (k, coef) = next(kv for kv in cc[0].items() if kv[0])
            if k in getattr(self, "family", {self.var}) or k == self.var:
                zero = ("zero", frozenset(), flags)
                if cc[1] == ">" and coef == 1:      # budget > 0 (also written 0 < budget)
                    return [fact], [zero]
                if (cc[1] == ">=" and coef == -1) or cc[1] == "==":   # budget <= 0 / budget == 0
                    return [zero], [fact]
                if cc[1] == "!=":
                    return [fact], [zero]
        return [fact], [fact]
