"""Exception containment (DESIGN.md C17): can an `Exception`-class token raised at a fault source leave a
function / a context-manager generator?  Fault sources are given by a predicate; context managers are
summarised by the set of tokens they swallow when thrown at their `yield` (computed from their own body)."""
from __future__ import annotations

import ast
from typing import Any, Callable

from ..db import ClassInfo, FunctionInfo, dotted, mangle, own_nodes
from ..exc import CANCELLED
from ..flow import Interp, WithEnter, WithExit, call_of
from .base import RuleAnalysis

TOKENS = ("OSError", "Exception", CANCELLED, "BaseException")
EXC_TOKENS = ("OSError", "Exception")


def _cname(call: ast.AST | None) -> str:
    if isinstance(call, ast.Call):
        f = call.func
        return f.attr if isinstance(f, ast.Attribute) else getattr(f, "id", "")
    return ""


class Containment(RuleAnalysis):
    tokens = TOKENS

    def __init__(self, engine, fault: Callable[[Any, "Containment"], bool], registry: "SwallowRegistry", is_cm: bool = False,
                 bound_cms: dict[str, frozenset] | None = None) -> None:
        super().__init__(engine)
        self.fault = fault
        self.registry = registry
        self.is_cm = is_cm
        self.bound_cms = bound_cms or {}  # callable-parameter name -> tokens swallowed by the CM it returns
        self.stacks: set[str] = set()
        self.none_yield_is_silent = True
        self.fault_sites: list[Any] = []

    def initial(self, fn):
        for n in own_nodes(fn.node):
            if isinstance(n, (ast.With, ast.AsyncWith)):
                for it in n.items:
                    if _cname(it.context_expr) in ("ExitStack", "AsyncExitStack") and isinstance(it.optional_vars, ast.Name):
                        self.stacks.add(it.optional_vars.id)
        return [frozenset()]

    def in_handler(self) -> bool:
        return bool(self.interp and self.interp.ctx.handler_tokens)

    def may_raise(self, node, fact):
        if self.is_cm and isinstance(node, ast.Yield):
            if isinstance(node.value, ast.Constant) and node.value.value is None and node.value is not None and self.none_yield_is_silent:
                return []  # "initialisation failed silently": the body must return at once (checked by the rule)
            return list(TOKENS)
        if self.fault(node, self):
            if node not in self.fault_sites:
                self.fault_sites.append(node)
            return list(TOKENS) if (isinstance(node, (ast.Await, ast.Yield)) or (isinstance(node, WithEnter) and node.is_async)) else [t for t in TOKENS if t != CANCELLED]
        return []

    def raise_fact(self, node, fact, token):
        if self.is_cm and isinstance(node, ast.Yield):
            return [fact | {"thrown"}]
        return [fact]

    def swallowed_by(self, ce: ast.AST) -> frozenset:
        """tokens swallowed by the context manager expression `ce`"""
        if not isinstance(ce, ast.Call):
            return frozenset()
        name = _cname(ce)
        if isinstance(ce.func, ast.Name) and ce.func.id in self.bound_cms:
            return self.bound_cms[ce.func.id]
        if name == "suppress":
            names = self.lattice.handler_classes(self.fn, ast.Tuple(elts=list(ce.args), ctx=ast.Load()))
            return frozenset(t for t in TOKENS if self.lattice.match(names, t, TOKENS) == "must")
        return self.registry.swallows_call(self.fn, ce)

    def transfer(self, node, fact):
        call = call_of(node)
        if call is not None and isinstance(call.func, ast.Attribute) and call.func.attr in ("enter_context", "enter_async_context") \
                and dotted(call.func.value) in self.stacks and call.args:
            sw = self.swallowed_by(call.args[0])
            if sw:
                return [fact | {f"sw:{dotted(call.func.value)}:{t}" for t in sw}]
        return [fact]

    def with_exit(self, node: WithExit, fact):
        if node.kind != "exc":
            return [(node.kind, node.token, fact)]
        var = node.item.optional_vars.id if isinstance(node.item.optional_vars, ast.Name) else None
        if var in self.stacks and f"sw:{var}:{node.token}" in fact:
            return [("normal", None, frozenset(x for x in fact if not x.startswith(f"sw:{var}:")))]
        sw = self.swallowed_by(node.item.context_expr)
        if node.token in sw:
            return [("normal", None, fact)]
        if var in self.stacks:
            fact = frozenset(x for x in fact if not x.startswith(f"sw:{var}:"))
        return [(node.kind, node.token, fact)]

    def branch(self, test, fact):
        # isinstance(<caught exception>, <Class>) is decided by the token the handler was entered with
        t = test
        neg = False
        while isinstance(t, ast.UnaryOp) and isinstance(t.op, ast.Not):
            neg = not neg
            t = t.operand
        if isinstance(t, ast.Call) and isinstance(t.func, ast.Name) and t.func.id == "isinstance" and len(t.args) == 2 and self.interp is not None:
            var = t.args[0].id if isinstance(t.args[0], ast.Name) else None
            for tok, name in reversed(self.interp.ctx.handler_tokens):
                if name == var:
                    names = self.lattice.handler_classes(self.fn, t.args[1])
                    v = self.lattice.match(names, tok, TOKENS)
                    if v == "must":
                        return (None, [fact]) if neg else ([fact], None)
                    if v == "no":
                        return ([fact], None) if neg else (None, [fact])
                    break
        return [fact], [fact]


class SwallowRegistry:
    """tokens a repo context manager swallows when they are thrown at its `yield` / passed to its __aexit__"""

    def __init__(self, engine) -> None:
        self.engine = engine
        self._memo: dict[str, frozenset] = {}

    def swallows_fn(self, g: FunctionInfo) -> frozenset:
        if g.qualname in self._memo:
            return self._memo[g.qualname]
        self._memo[g.qualname] = frozenset()
        an = Containment(self.engine, lambda n, a: False, self, is_cm=True)
        out = Interp(an, g).run()
        escaped = {tok for tok, m in out.exc.items() for f in m if "thrown" in f}
        res = frozenset(t for t in TOKENS if t not in escaped)
        self._memo[g.qualname] = res
        return res

    def swallows_call(self, fn: FunctionInfo, ce: ast.Call) -> frozenset:
        tg = [t for t in self.engine.typer.call_targets(fn, ce, dispatch=False) if isinstance(t, FunctionInfo)]
        out = None
        for g in tg:
            if g.has_decorator("contextmanager", "asynccontextmanager"):
                s = self.swallows_fn(g)
            elif g.name == "__init__" and g.cls is not None:
                s = self.swallows_class(g.cls)
            else:
                # a plain function returning a context manager object
                s = self.swallows_returned(g)
            out = s if out is None else (out & s)
        return out or frozenset()

    def swallows_returned(self, g: FunctionInfo) -> frozenset:
        if isinstance(g.node, ast.Lambda):
            return frozenset()
        from .buffers import through_local

        rets = [through_local(g, n.value) for n in own_nodes(g.node) if isinstance(n, ast.Return) and n.value is not None]
        rets = [r for r in rets if isinstance(r, ast.Call)]
        out = None
        for r in rets:
            s = self.swallows_call(g, r)
            out = s if out is None else (out & s)
        return out or frozenset()

    def swallows_class(self, ci: ClassInfo) -> frozenset:
        """`__aexit__` / `__exit__` returning True exactly for Exception-class instances: structural check.
        every `return False` / `raise` in the method lies under `<exc> is None` or under a `case _:` that follows a
        `case Exception():` of the same match; no path falls off the end."""
        key = ci.qualname
        if key in self._memo:
            return self._memo[key]
        ex = ci.find_method("__aexit__") or ci.find_method("__exit__")
        res = frozenset()
        if ex is not None:
            ok = True
            fn_node = ex.node

            def visit(stmts, excluded_exception: bool, none_guard: bool):
                nonlocal ok
                for st in stmts:
                    if isinstance(st, ast.Return):
                        v = st.value
                        is_true = isinstance(v, ast.Constant) and v.value is True
                        if not is_true and not (excluded_exception or none_guard):
                            ok = False
                    elif isinstance(st, ast.Raise):
                        if not (excluded_exception or none_guard):
                            ok = False
                    elif isinstance(st, ast.If):
                        ng = none_guard or ("is None" in ast.unparse(st.test) and not isinstance(st.test, ast.BoolOp))
                        visit(st.body, excluded_exception, ng)
                        visit(st.orelse, excluded_exception, none_guard)
                    elif isinstance(st, ast.Match):
                        seen_exception = False
                        for case in st.cases:
                            p = case.pattern
                            wildcard = isinstance(p, ast.MatchAs) and p.pattern is None
                            visit(case.body, excluded_exception or (wildcard and seen_exception), none_guard)
                            if isinstance(p, ast.MatchClass) and dotted(p.cls) == "Exception" and case.guard is None and not p.patterns and not p.kwd_patterns:
                                seen_exception = True
                        if not any(isinstance(c.pattern, ast.MatchAs) and c.pattern.pattern is None for c in st.cases):
                            ok = False
                    elif isinstance(st, ast.Try):
                        visit(st.body, excluded_exception, none_guard)
                        for h in st.handlers:
                            visit(h.body, excluded_exception, none_guard)
                        visit(st.finalbody, True, True)  # cleanup only
                    elif isinstance(st, (ast.With, ast.AsyncWith, ast.For, ast.While)):
                        visit(st.body, excluded_exception, none_guard)

            visit(fn_node.body, False, False)
            last = fn_node.body[-1]
            falls = not isinstance(last, (ast.Return, ast.Raise, ast.Try, ast.Match))
            if ok and not falls:
                res = frozenset(EXC_TOKENS)
        self._memo[key] = res
        return res
