"""Exception containment (DESIGN.md C17): can an `Exception`-class token raised at a fault source leave a
function / a context-manager generator?  Fault sources are given by a predicate; context managers are
summarised by the set of tokens they swallow when thrown at their `yield` (computed from their own body)."""
from __future__ import annotations

import ast
from typing import Any, Callable

from ..db import ClassInfo, FunctionInfo, dotted, mangle, own_nodes
from ..exc import CANCELLED
from ..flow import Interp, WithEnter, WithExit, call_of
from .base import RuleAnalysis

TOKENS = ("OSError", "Exception", CANCELLED, "BaseException")
EXC_TOKENS = ("OSError", "Exception")


def _cname(call: ast.AST | None) -> str:
    if isinstance(call, ast.Call):
        f = call.func
        return f.attr if isinstance(f, ast.Attribute) else getattr(f, "id", "")
    return ""


class Containment(RuleAnalysis):
    tokens = TOKENS

    def __init__(self, engine, fault: Callable[[Any, "Containment"], bool], registry: "SwallowRegistry", is_cm: bool = False,
                 bound_cms: dict[str, frozenset] | None = None) -> None:
        super().__init__(engine)
        self.fault = fault
        self.registry = registry
        self.is_cm = is_cm
        self.bound_cms = bound_cms or {}  # callable-parameter name -> tokens swallowed by the CM it returns
        self.stacks: set[str] = set()
        self.none_yield_is_silent = True
        self.fault_sites: list[Any] = []

    def initial(self, fn):
        for n in own_nodes(fn.node):
            if isinstance(n, (ast.With, ast.AsyncWith)):
                for it in n.items:
                    if _cname(it.context_expr) in ("ExitStack", "AsyncExitStack") and isinstance(it.optional_vars, ast.Name):
                        self.stacks.add(it.optional_vars.id)
        return [frozenset()]

    def in_handler(self) -> bool:
        return bool(self.interp and self.interp.ctx.handler_tokens)

    def may_raise(self, node, fact):
        if self.is_cm and isinstance(node, ast.Yield):
            if isinstance(node.value, ast.Constant) and node.value.value is None and node.value is not None and self.none_yield_is_silent:
                return []  # "initialisation failed silently": the body must return at once (checked by the rule)
            return list(TOKENS)
        if self.fault(node, self):
            if node not in self.fault_sites:
                self.fault_sites.append(node)
            return list(TOKENS) if (isinstance(node, (ast.Await, ast.Yield)) or (isinstance(node, WithEnter) and node.is_async)) else [t for t in TOKENS if t != CANCELLED]
        return []

    def raise_fact(self, node, fact, token):
        if self.is_cm and isinstance(node, ast.Yield):
            return [fact | {"thrown"}]
        return [fact]

    def swallowed_by(self, ce: ast.AST) -> frozenset:
        """tokens swallowed by the context manager expression `ce`"""
        if not isinstance(ce, ast.Call):
            return frozenset()
        name = _cname(ce)
        if isinstance(ce.func, ast.Name) and ce.func.id in self.bound_cms:
            return self.bound_cms[ce.func.id]
        if name == "suppress":
            names = self.lattice.handler_classes(self.fn, ast.Tuple(elts=list(ce.args), ctx=ast.Load()))
            return frozenset(t for t in TOKENS if self.lattice.match(names, t, TOKENS) == "must")
        return self.registry.swallows_call(self.fn, ce)

    def transfer(self, node, fact):
        call = call_of(node)
        if call is not None and isinstance(call.func, ast.Attribute) and call.func.attr in ("enter_context", "enter_async_context") \
                and dotted(call.func.value) in self.stacks and call.args:
            sw = self.swallowed_by(call.args[0])
            if sw:
                return [fact | {f"sw:{dotted(call.func.value)}:{t}" for t in sw}]
        return [fact]

    def with_exit(self, node: WithExit, fact):
        if node.kind != "exc":
            return [(node.kind, node.token, fact)]
        var = node.item.optional_vars.id if isinstance(node.item.optional_vars, ast.Name) else None
        if var in self.stacks and f"sw:{var}:{node.token}" in fact:
            return [("normal", None, frozenset(x for x in fact if not x.startswith(f"sw:{var}:")))]
        sw = self.swallowed_by(node.item.context_expr)
        if node.token in sw:
            return [("normal", None, fact)]
        if var in self.stacks:
            fact = frozenset(x for x in fact if not x.startswith(f"sw:{var}:"))
        return [(node.kind, node.token, fact)]

    def branch(self, test, fact):
        # isinstance(<caught exception>, <Class>) is decided by the token the handler was entered with
        t = test
        neg = False
        while isinstance(t, ast.UnaryOp) and isinstance(t.op, ast.Not):
            neg = not neg
            t = t.operand
        if isinstance(t, ast.Call) and isinstance(t.func, ast.Name) and t.func.id == "isinstance" and len(t.args) == 2 and self.interp is not None:
            var = t.args[0].id if isinstance(t.args[0], ast.Name) else None
            for tok, name in reversed(self.interp.ctx.handler_tokens):
                if name == var:
                    names = self.lattice.handler_classes(self.fn, t.args[1])
                    v = self.lattice.match(names, tok, TOKENS)
                    if v == "must":
                        return (None, [fact]) if neg else ([fact], None)
                    if v == "no":
                        return ([fact], None) if neg else (None, [fact])
                    break
        return [fact], [fact]


class SwallowRegistry:
    """tokens a repo context manager swallows when they are thrown at its `yield` / passed to its __aexit__"""

    def __init__(self, engine) -> None:
        self.engine = engine
        self._memo: dict[str, frozenset] = {}

    def swallows_fn(self, g: FunctionInfo) -> frozenset:
        if g.qualname in self._memo:
            return self._memo[g.qualname]
        self._memo[g.qualname] = frozenset()
        an = Containment(self.engine, lambda n, a: False, self, is_cm=True)
        out = Interp(an, g).run()
        escaped = {tok for tok, m in out.exc.items() for f in m if "thrown" in f}
        res = frozenset(t for t in TOKENS if t not in escaped)
        self._memo[g.qualname] = res
        return res

    def swallows_call(self, fn: FunctionInfo, ce: ast.Call) -> frozenset:
        tg = [t for t in self.engine.typer.call_targets(fn, ce, dispatch=False) if isinstance(t, FunctionInfo)]
        out = None
        for g in tg:
            if g.has_decorator("contextmanager", "asynccontextmanager"):
                s = self.swallows_fn(g)
            elif g.name == "__init__" and g.cls is not None:
                s = self.swallows_class(g.cls)
            else:
                # a plain function returning a context manager object
                s = self.swallows_returned(g)
            out = s if out is None else (out & s)
        return out or frozenset()

    def swallows_returned(self, g: FunctionInfo) -> frozenset:
        if isinstance(g.node, ast.Lambda):
            return frozenset()
        from .buffers import through_local

        rets = [through_local(g, n.value) for n in own_nodes(g.node) if isinstance(n, ast.Return) and n.value is not None]
        rets = [r for r in rets if isinstance(r, ast.Call)]
        out = None
        for r in rets:
            s = self.swallows_call(g, r)
            out = s if out is None else (out & s)
        return out or frozenset()

    def swallows_class(self, ci: ClassInfo) -> frozenset:
        """`__aexit__` / `__exit__` returns True for every Exception-class instance and for every group of them: decided by
        enumerating the paths of the method with the exception parameter bound to an abstract kind (`exc`: one Exception
        instance, `grp`: an ExceptionGroup holding only Exceptions); isinstance / match / `is None` tests on it are decided
        from the kind, `rest = group.split(...)[1]` yields `none` or `grp`; every path must end in `return True`."""
        key = ci.qualname
        if key in self._memo:
            return self._memo[key]
        ex = ci.find_method("__aexit__") or ci.find_method("__exit__")
        res = frozenset()
        if ex is not None and not isinstance(ex.node, ast.Lambda):
            args = ex.node.args
            pos = [a.arg for a in args.posonlyargs + args.args]
            if len(pos) >= 3 and all(ExitPaths(ex.node, pos[2], k, resolver=ci.find_method, self_name=pos[0]).all_true() for k in ("exc", "grp")):
                res = frozenset(EXC_TOKENS)
        self._memo[key] = res
        return res


class ExitPaths:
    """Path enumeration of an `__exit__`-like method over the abstract kind of its exception argument."""

    GROUPS = {"BaseExceptionGroup", "ExceptionGroup"}
    ROOTS = {"Exception", "BaseException"}

    def __init__(self, fn_node: ast.AST, var: str, kind: str, resolver=None, self_name: str | None = None, depth: int = 0) -> None:
        self.fn_node, self.var, self.kind = fn_node, var, kind
        self.budget = 4000
        self.resolver, self.self_name, self.depth = resolver, self_name, depth
        self.ret_kinds: list[str] = []  # abstract kind of every value returned (read by the caller when a private helper is followed)

    def helper_result(self, call: ast.Call, env: dict):
        """`self.__helper(x)` with x of a known kind, the helper a plain (non-async, non-generator) method of the same class: the kinds it
        can return and whether one of its paths raises; None when it is not followed"""
        if self.resolver is None or self.depth >= 2 or not (isinstance(call.func, ast.Attribute) and isinstance(call.func.value, ast.Name)
                                                            and call.func.value.id == self.self_name) or call.keywords:
            return None
        g = self.resolver(call.func.attr)
        node = getattr(g, "node", None)
        if not isinstance(node, ast.FunctionDef) or any(isinstance(x, (ast.Yield, ast.YieldFrom)) for x in ast.walk(node)):
            return None
        params = [a.arg for a in node.args.posonlyargs + node.args.args]
        if len(params) != len(call.args) + 1 or not any(isinstance(a, ast.Name) and env.get(a.id, "?") != "?" for a in call.args):
            return None
        genv = {params[i + 1]: (env.get(a.id, "?") if isinstance(a, ast.Name) else ("none" if isinstance(a, ast.Constant) and a.value is None else "?")) for i, a in enumerate(call.args)}
        sub = ExitPaths(node, params[1] if len(params) > 1 else "", "", resolver=self.resolver, self_name=params[0], depth=self.depth + 1)
        raises = False
        for out, _ in sub.block(node.body, genv):
            if out == "raise":
                raises = True
            elif out == "next":
                sub.ret_kinds.append("none")
            elif out in ("break", "continue"):
                return None
        if sub.budget < 0:
            return None
        return set(sub.ret_kinds), raises

    def all_true(self) -> bool:
        outs = list(self.block(self.fn_node.body, {self.var: self.kind}))
        return bool(outs) and all(o == "true" for o, _ in outs)

    # -- tests -------------------------------------------------------------------------------------------------------
    def _isinst(self, kind: str, cls: ast.AST) -> bool | None:
        names = [dotted(c) or "" for c in (cls.elts if isinstance(cls, ast.Tuple) else [cls])]
        names = [n.split(".")[-1] for n in names]
        if kind == "none":
            return False
        if kind not in ("exc", "grp"):
            return None
        if any(n in self.ROOTS for n in names):
            return True
        if any(n in self.GROUPS for n in names):
            if kind == "grp":
                return True
            names = [n for n in names if n not in self.GROUPS]
            if not names:
                return False
        if kind == "grp":
            return False if all(n and n[0].isupper() for n in names) else None
        return None  # some other class: the instance may or may not be one

    def test(self, t: ast.AST, env: dict) -> bool | None:
        if isinstance(t, ast.UnaryOp) and isinstance(t.op, ast.Not):
            r = self.test(t.operand, env)
            return None if r is None else not r
        if isinstance(t, ast.BoolOp):
            rs = [self.test(v, env) for v in t.values]
            if isinstance(t.op, ast.And):
                return False if any(r is False for r in rs) else (True if all(r is True for r in rs) else None)
            return True if any(r is True for r in rs) else (False if all(r is False for r in rs) else None)
        if isinstance(t, ast.Compare) and len(t.ops) == 1 and isinstance(t.left, ast.Name) and t.left.id in env \
                and isinstance(t.comparators[0], ast.Constant) and t.comparators[0].value is None and isinstance(t.ops[0], (ast.Is, ast.IsNot, ast.Eq, ast.NotEq)):
            k = env[t.left.id]
            if k == "?":
                return None
            r = k == "none"
            return r if isinstance(t.ops[0], (ast.Is, ast.Eq)) else not r
        if isinstance(t, ast.Call) and isinstance(t.func, ast.Name) and t.func.id == "isinstance" and len(t.args) == 2 \
                and isinstance(t.args[0], ast.Name) and t.args[0].id in env:
            return self._isinst(env[t.args[0].id], t.args[1])
        if isinstance(t, ast.Name) and t.id in env and env[t.id] != "?":
            return env[t.id] != "none"
        return None

    def _pattern(self, p: ast.AST, kind: str) -> bool | None:
        if isinstance(p, ast.MatchAs) and p.pattern is None:
            return True
        if isinstance(p, ast.MatchAs):
            return self._pattern(p.pattern, kind)
        if isinstance(p, ast.MatchSingleton):
            return (kind == "none") if p.value is None and kind != "?" else (False if kind in ("exc", "grp", "none") else None)
        if isinstance(p, ast.MatchClass):
            r = self._isinst(kind, p.cls) if kind != "?" else None
            if r is True and (p.patterns or p.kwd_patterns):
                return None
            return r
        if isinstance(p, ast.MatchOr):
            rs = [self._pattern(q, kind) for q in p.patterns]
            return True if any(r is True for r in rs) else (False if all(r is False for r in rs) else None)
        return None

    # -- statements --------------------------------------------------------------------------------------------------
    def block(self, stmts, env):
        """Yield (outcome, env) for every path through `stmts`; outcome in next / true / other / raise / break / continue."""
        self.budget -= 1
        if self.budget < 0:
            yield "other", env
            return
        if not stmts:
            yield "next", env
            return
        st, rest = stmts[0], stmts[1:]
        for out, e in self.stmt(st, env):
            if out == "next":
                yield from self.block(rest, e)
            else:
                yield out, e

    def stmt(self, st, env):
        if isinstance(st, ast.Return):
            v = st.value
            self.ret_kinds.append("none" if v is None or (isinstance(v, ast.Constant) and v.value is None) else (env.get(v.id, "?") if isinstance(v, ast.Name) else "?"))
            yield ("true" if isinstance(v, ast.Constant) and v.value is True else "other"), env
        elif isinstance(st, ast.Raise):
            yield "raise", env
        elif isinstance(st, ast.If):
            r = self.test(st.test, env)
            if r is not False:
                yield from self.block(st.body, env)
            if r is not True:
                yield from self.block(st.orelse, env)
        elif isinstance(st, ast.Match):
            subj = st.subject.id if isinstance(st.subject, ast.Name) and st.subject.id in env else None
            kind = env[subj] if subj else "?"
            fell = True
            for case in st.cases:
                r = self._pattern(case.pattern, kind)
                if r is False:
                    continue
                if case.guard is not None:
                    g = self.test(case.guard, env)
                    if g is False:
                        continue
                    if g is None:
                        r = None
                yield from self.block(case.body, env)
                if r is True:
                    fell = False
                    break
            if fell:
                yield "next", env
        elif isinstance(st, ast.Try):
            for out, e in self.block(st.body, env):
                outs = [(out, e)]
                if out == "raise" and st.handlers:
                    outs = [oe for h in st.handlers for oe in self.block(h.body, e)] + [(out, e)]
                elif out == "next" and st.orelse:
                    outs = list(self.block(st.orelse, e))
                for out2, e2 in outs:
                    if not st.finalbody:
                        yield out2, e2
                        continue
                    for out3, e3 in self.block(st.finalbody, e2):
                        yield (out2, e3) if out3 == "next" else (out3, e3)
        elif isinstance(st, (ast.With, ast.AsyncWith)):
            yield from self.block(st.body, env)
        elif isinstance(st, (ast.For, ast.AsyncFor, ast.While)):
            yield "next", env
            for out, e in self.block(st.body, env):
                yield ("next" if out in ("break", "continue") else out), e
        elif isinstance(st, ast.Break):
            yield "break", env
        elif isinstance(st, ast.Continue):
            yield "continue", env
        elif isinstance(st, (ast.Assign, ast.AnnAssign)):
            targets = st.targets if isinstance(st, ast.Assign) else [st.target]
            val = st.value
            split_of = None
            if isinstance(val, ast.Call) and isinstance(val.func, ast.Attribute) and val.func.attr == "split" and isinstance(val.func.value, ast.Name) \
                    and env.get(val.func.value.id) == "grp":
                split_of = val.func.value.id
            envs = [dict(env)]
            followed = self.helper_result(val, env) if isinstance(val, ast.Call) and len(targets) == 1 and isinstance(targets[0], ast.Name) else None
            if followed is not None:
                kinds, raises = followed
                if raises:
                    yield "raise", env
                for k in sorted(kinds):
                    yield "next", {**env, targets[0].id: k}
                return
            for t in targets:
                if isinstance(t, ast.Tuple) and split_of and len(t.elts) == 2 and all(isinstance(x, ast.Name) for x in t.elts):
                    # (matching sub-group | None, remaining sub-group | None); both are groups of Exceptions only
                    envs = [{**e, t.elts[0].id: a, t.elts[1].id: b} for e in envs for a in ("none", "grp") for b in ("none", "grp") if (a, b) != ("none", "none")]
                else:
                    for n in ast.walk(t):
                        if isinstance(n, ast.Name):
                            k = env.get(val.id, "?") if isinstance(val, ast.Name) else ("none" if isinstance(val, ast.Constant) and val.value is None else "?")
                            envs = [{**e, n.id: k} for e in envs]
            for e in envs:
                yield "next", e
        else:
            yield "next", env
