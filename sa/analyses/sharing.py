"""Sharing / bounding of buffers (DESIGN.md 10.9): two small whole-package structural rules.

* `check_private_buffers`: a mutable byte buffer stored in an instance attribute is allocated per instance - its value is not the
  result of a memoising factory (`functools.cache` / `lru_cache`), not a module-level object and not a mutable default argument.
* `check_unbounded_queues`: the queues that carry received items from a loop callback to the reader have no capacity bound
  (`Queue(maxsize=n)` + `put_nowait` raises QueueFull inside the callback where it is only logged; `deque(maxlen=n)` discards
  silently)."""
from __future__ import annotations

import ast

from ..db import dotted, own_nodes

MUTABLE_CTORS = {"bytearray", "list", "dict", "set", "deque", "memoryview", "array", "defaultdict", "OrderedDict"}
CACHE_DECOS = ("cache", "lru_cache", "cached")


def _is_cached(fn) -> bool:
    for d in getattr(fn.node, "decorator_list", []):
        e = d.func if isinstance(d, ast.Call) else d
        if (dotted(e) or "").split(".")[-1] in CACHE_DECOS:
            return True
    return False


def _mutable_value(e: ast.AST | None) -> bool:
    if isinstance(e, (ast.List, ast.Dict, ast.Set, ast.ListComp, ast.DictComp, ast.SetComp)):
        return True
    return isinstance(e, ast.Call) and (dotted(e.func) or "").split(".")[-1] in MUTABLE_CTORS


def check_private_buffers(eng, run, rule: str, prefixes: tuple[str, ...], floor: int = 1) -> None:
    n = 0
    for fn in eng.db.all_functions():
        if isinstance(fn.node, ast.Lambda) or fn.cls is None or fn.self_name is None or not fn.module.name.startswith(prefixes):
            continue
        for st in own_nodes(fn.node):
            if not isinstance(st, (ast.Assign, ast.AnnAssign)) or st.value is None:
                continue
            tgs = [t for t in (st.targets if isinstance(st, ast.Assign) else [st.target]) if isinstance(t, ast.Attribute) and dotted(t.value) == fn.self_name]
            if not tgs:
                continue
            v = st.value
            why = None
            if isinstance(v, ast.Call):
                ctor = (dotted(v.func) or "").split(".")[-1]
                if ctor not in ("bytearray", "memoryview") and "buffer" not in tgs[0].attr.lower():
                    continue
                for t in eng.typer.call_targets(fn, v):
                    if hasattr(t, "node") and not isinstance(t, str) and _is_cached(t):
                        rets = [r.value for r in own_nodes(t.node) if isinstance(r, ast.Return)]
                        if any(_mutable_value(r) or isinstance(r, ast.Name) for r in rets):
                            why = f"`{t.name}` is memoised: every instance gets the same mutable object"
            elif isinstance(v, ast.Name) and "buffer" in tgs[0].attr.lower():
                g = fn.module.globals_assigned.get(v.id) if hasattr(fn.module, "globals_assigned") else None
                if g is None:
                    for top in fn.module.tree.body:
                        if isinstance(top, (ast.Assign, ast.AnnAssign)) and top.value is not None and any(isinstance(x, ast.Name) and x.id == v.id for x in (top.targets if isinstance(top, ast.Assign) else [top.target])):
                            g = top.value
                if g is not None and _mutable_value(g):
                    why = f"module-level `{v.id}` is shared by every instance"
                # mutable default argument
                a = fn.node.args
                pos = a.posonlyargs + a.args
                dflt = dict(zip([x.arg for x in pos[len(pos) - len(a.defaults):]], a.defaults))
                dflt.update({k.arg: d for k, d in zip(a.kwonlyargs, a.kw_defaults) if d is not None})
                if v.id in dflt and _mutable_value(dflt[v.id]):
                    why = f"the default value of `{v.id}` is created once and shared by every instance"
            else:
                continue
            n += 1
            if why:
                run.finding(rule, fn, st, f"the buffer `{fn.self_name}.{tgs[0].attr}` is not private to the instance ({why}): data of one connection is overwritten by another's before it is consumed")
            run.ob(rule, f"{fn.short}:{tgs[0].attr}:allocated-per-instance", why is None)
    run.floor(f"{rule} instance buffers", n, floor)


def check_unbounded_queues(eng, run, rule: str, module_filter, floor: int = 1) -> None:
    n = 0
    for fn in eng.db.all_functions():
        if isinstance(fn.node, ast.Lambda) or not module_filter(fn.module.name):
            continue
        for c in own_nodes(fn.node):
            if not isinstance(c, ast.Call):
                continue
            nm = (dotted(c.func) or "").split(".")[-1]
            bound = None
            if nm in ("Queue", "LifoQueue", "PriorityQueue", "SimpleQueue"):
                bound = c.args[0] if c.args else next((k.value for k in c.keywords if k.arg == "maxsize"), None)
            elif nm == "deque":
                bound = c.args[1] if len(c.args) > 1 else next((k.value for k in c.keywords if k.arg == "maxlen"), None)
            else:
                continue
            n += 1
            ok = bound is None or (isinstance(bound, ast.Constant) and bound.value in (0, None))
            if not ok:
                run.finding(rule, fn, c, f"`{ast.unparse(c)[:70]}` bounds a queue of received items: once it is full the producer's put_nowait() raises inside the event-loop callback (only logged) or the deque discards silently - the item yields neither a packet nor an error")
            run.ob(rule, f"{fn.short}:{nm}@{c.lineno - fn.node.lineno}:unbounded", ok)
    run.floor(f"{rule} queues of received items", n, floor)


def check_fresh_receive_buffers(eng, run, rule: str, floor: int = 3) -> None:
    """`create_deserializer_buffer()` hands out a buffer of its own on every call: each return is an allocation (`bytearray(n)`,
    `memoryview(bytearray(n))`, ...) or the result of another serializer's `create_deserializer_buffer()` - never an object kept in
    an attribute, a module-level name or a memoised helper.  One protocol object serves many connections; a cached buffer makes
    them write into each other's partially received frames."""
    from .buffers import through_local
    n = 0
    for fn in eng.db.all_functions():
        if isinstance(fn.node, ast.Lambda) or fn.name != "create_deserializer_buffer" or fn.has_decorator("abstractmethod"):
            continue
        rets = [r for r in own_nodes(fn.node) if isinstance(r, ast.Return) and r.value is not None]
        if not rets:
            continue
        n += 1
        bad = []
        for r in rets:
            v = through_local(fn, r.value)
            while isinstance(v, ast.NamedExpr):
                v = v.value
            fresh = False
            if isinstance(v, ast.Call):
                nm = (dotted(v.func) or "").split(".")[-1]
                fresh = nm in ("bytearray", "memoryview", "array", "create_deserializer_buffer") or nm[:1].isupper()
                for t in eng.typer.call_targets(fn, v):
                    if hasattr(t, "node") and not isinstance(t, str) and _is_cached(t):
                        fresh = False
            # the local the value was read through may itself be (also) stored into / loaded from an attribute
            if isinstance(r.value, ast.Name):
                for st in own_nodes(fn.node):
                    if isinstance(st, (ast.Assign, ast.AnnAssign, ast.NamedExpr)):
                        tg = st.targets if isinstance(st, ast.Assign) else [st.target]
                        names = [t for t in tg if isinstance(t, ast.Name) and t.id == r.value.id]
                        attrs = [t for t in tg if isinstance(t, ast.Attribute)]
                        val = st.value
                        if names and (attrs or isinstance(val, ast.Attribute) or (isinstance(val, ast.NamedExpr) and isinstance(val.value, ast.Attribute))):
                            fresh = False
            if not fresh:
                bad.append(r)
        for r in bad[:1]:
            run.finding(rule, fn, r, "create_deserializer_buffer() can return an object that outlives the call (kept in an attribute / cache) instead of a fresh buffer: every connection that uses this "
                        "protocol object fills the same buffer, and partially received frames of one connection are overwritten by another's")
        run.ob(rule, f"{fn.cls.name if fn.cls else fn.module.name}.create_deserializer_buffer:fresh-buffer-per-call", not bad, returns=len(rets))
    run.floor(f"{rule} receive-buffer factories", n, floor)
