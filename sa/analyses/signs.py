"""Finite abstract interpretation of the user-space send loops over the sign domain (DESIGN.md C04.prog).

The loops touch their data only through lengths and comparisons, so the abstraction {0,+} (plus '-' for the
result of a subtraction) for every int / length and short lists of signs for a deque of buffers is exact for the
*progress* question: does every iteration, from every abstract pre-state that satisfies the loop condition,
either leave the loop or make progress (an element removed from the queue, an element replaced by a strict
suffix of itself, or a counter compared in the loop condition grown by a positive amount)?  The measure
(bytes remaining, queue length) is well founded, so per-iteration progress implies termination of the loop.

The interpreter executes real AST (a restricted statement subset, anything else is an AnalysisError - never a
silent pass), inlines resolved repository callees and uses stubs for the send primitives (assumption: a
non-blocking send never returns 0 for a non-empty buffer, it raises EAGAIN which the retry wrapper turns into a
bounded wait; for an all-empty offer it returns 0).
"""
from __future__ import annotations

import ast
import itertools
from dataclasses import dataclass
from typing import Any

from ..db import AnalysisError, FunctionInfo, dotted

Z, P, N = "0", "+", "-"


class Unsupported(AnalysisError):
    pass


@dataclass(frozen=True)
class Buf:
    sign: str  # '0' | '+'
    ident: str = ""  # which original element this is a view of (for strict-suffix bookkeeping)


@dataclass(frozen=True)
class Dq:
    items: tuple  # of Buf


@dataclass(frozen=True)
class Tup:
    items: tuple


UNK = "?"


class State:
    __slots__ = ("env", "rel", "progress", "lenof")

    def __init__(self, env=None, rel=frozenset(), progress=False, lenof=None):
        self.env = dict(env or {})
        self.rel = rel  # facts ("lt", intvar, bufvar): value(intvar) < len(bufvar)
        self.progress = progress
        self.lenof = dict(lenof or {})  # int var -> buffer var whose length it holds

    def copy(self):
        return State(self.env, self.rel, self.progress, self.lenof)

    def key(self):
        return (tuple(sorted((str(k), repr(v)) for k, v in self.env.items())), self.rel, self.progress, tuple(sorted((str(a), str(b)) for a, b in self.lenof.items())))

    def kill(self, name):
        self.rel = frozenset(f for f in self.rel if name not in f[1:])
        self.lenof = {k: v for k, v in self.lenof.items() if k != name and v != name}


class Outcome:
    def __init__(self):
        self.normal: list[State] = []
        self.brk: list[State] = []
        self.ret: list[tuple[State, Any]] = []
        self.exc: list[State] = []
        self.cont: list[State] = []  # `continue`: the end of the current iteration


class SignInterp:
    def __init__(self, engine, fn: FunctionInfo, stubs: dict[str, Any], max_deque: int = 3) -> None:
        self.engine = engine
        self.fn = fn
        self.stubs = stubs
        self.max_deque = max_deque
        self.steps = 0
        self.no_progress: list[tuple[ast.AST, State]] = []
        self.iterations = 0
        self.loop_counters: set[str] = set()

    # ------------------------------------------------------------------ expressions (may be nondeterministic)
    def ev(self, e: ast.AST, st: State) -> list[tuple[Any, State]]:
        self.steps += 1
        if self.steps > 200000:
            raise AnalysisError("sign interpreter: step budget exhausted")
        if isinstance(e, ast.Constant):
            if isinstance(e.value, bool):
                return [(e.value, st)]
            if isinstance(e.value, int):
                return [(Z if e.value == 0 else (P if e.value > 0 else N), st)]
            if isinstance(e.value, (bytes, str)):
                return [(Buf(P if e.value else Z), st)]
            return [(UNK, st)]
        if isinstance(e, ast.Name):
            return [(st.env.get(e.id, UNK), st)]
        if isinstance(e, ast.Attribute):
            return [(st.env.get(dotted(e) or "", UNK), st)]
        if isinstance(e, ast.Tuple):
            outs = [((), st)]
            for el in e.elts:
                outs = [(acc + (v,), s2) for acc, s1 in outs for v, s2 in self.ev(el, s1)]
            return [(Tup(acc), s) for acc, s in outs]
        if isinstance(e, ast.NamedExpr):
            res = []
            for v, s in self.ev(e.value, st):
                s = s.copy()
                self.assign(e.target, v, s, e.value)
                res.append((v, s))
            return res
        if isinstance(e, ast.UnaryOp) and isinstance(e.op, ast.Not):
            return [(self._not(v), s) for v, s in self.ev(e.operand, st)]
        if isinstance(e, ast.BoolOp):
            # evaluate operands left to right with short circuit on known booleans
            outs = self.truth(e.values[0], st)
            for nxt in e.values[1:]:
                new = []
                for tv, s in outs:
                    if isinstance(e.op, ast.And):
                        if tv is False:
                            new.append((False, s))
                        else:
                            new += self.truth(nxt, s)
                    else:
                        if tv is True:
                            new.append((True, s))
                        else:
                            new += self.truth(nxt, s)
                outs = new
            return outs
        if isinstance(e, ast.Compare) and len(e.ops) == 1:
            return self.compare(e, st)
        if isinstance(e, ast.BinOp) and isinstance(e.op, (ast.Sub, ast.Add)):
            res = []
            for a, s1 in self.ev(e.left, st):
                for b, s2 in self.ev(e.right, s1):
                    for v in (self._sub(a, b) if isinstance(e.op, ast.Sub) else self._add(a, b)):
                        res.append((v, s2))
            return res
        if isinstance(e, ast.Subscript):
            return self.subscript(e, st)
        if isinstance(e, ast.Call):
            return self.call(e, st)
        if isinstance(e, ast.Await):
            return self.ev(e.value, st)
        if isinstance(e, ast.IfExp):
            res = []
            for tv, s in self.truth(e.test, st):
                res += self.ev(e.body if tv else e.orelse, s)
            return res
        return [(UNK, st)]

    def _not(self, v):
        return (not v) if isinstance(v, bool) else UNK

    def _sub(self, a, b):
        if a in (Z, P, N) and b in (Z, P, N):
            if b == Z:
                return [a]
            if a == Z:
                return [N if b == P else P]
            if a == P and b == P:
                return [Z, P, N]
            if a == P and b == N:
                return [P]
            if a == N and b == P:
                return [N]
            return [Z, P, N]
        return [UNK]

    def _add(self, a, b):
        if a in (Z, P) and b in (Z, P):
            return [P if (a == P or b == P) else Z]
        return [UNK]

    def truth(self, e: ast.AST, st: State) -> list[tuple[bool, State]]:
        res = []
        for v, s in self.ev(e, st):
            if isinstance(v, bool):
                res.append((v, s))
            elif isinstance(v, Dq):
                res.append((bool(v.items), s))
            elif isinstance(v, Buf):
                res.append((v.sign == P, s))
            elif v in (Z, P, N):
                res.append((v != Z, s))
            else:
                res.append((True, s.copy()))
                res.append((False, s.copy()))
        return res

    def compare(self, e: ast.Compare, st: State):
        op = e.ops[0]
        res = []
        for a, s1 in self.ev(e.left, st):
            for b, s2 in self.ev(e.comparators[0], s1):
                _nm = lambda x: x.id if isinstance(x, ast.Name) else (x.target.id if isinstance(x, ast.NamedExpr) and isinstance(x.target, ast.Name) else None)  # noqa: E731
                ln = _nm(e.left)
                rn = _nm(e.comparators[0])
                outs = self._cmp(op, a, b)
                for tv in outs:
                    s = s2.copy()
                    # relational bookkeeping: A < B / not (B <= A) where B holds len(buf)
                    if ln and rn:
                        if (isinstance(op, ast.Lt) and tv) or (isinstance(op, ast.GtE) and not tv):
                            if rn in s.lenof:
                                s.rel = s.rel | {("lt", ln, s.lenof[rn])}
                        if (isinstance(op, ast.LtE) and not tv) or (isinstance(op, ast.Gt) and tv):
                            # not (L <= R)  ==> R < L
                            if ln in s.lenof:
                                s.rel = s.rel | {("lt", rn, s.lenof[ln])}
                    if ln and isinstance(e.comparators[0], ast.Call) and getattr(e.comparators[0].func, "id", "") == "len" and e.comparators[0].args \
                            and isinstance(e.comparators[0].args[0], ast.Name) and isinstance(op, ast.Lt) and tv:
                        s.rel = s.rel | {("lt", ln, e.comparators[0].args[0].id)}
                    res.append((tv, s))
        return res

    def _cmp(self, op, a, b) -> list[bool]:
        order = {N: -1, Z: 0, P: 1}
        if a in order and b in order:
            x, y = order[a], order[b]
            if x != y:
                base = x < y
                return {ast.Lt: [base], ast.LtE: [base], ast.Gt: [not base], ast.GtE: [not base], ast.Eq: [False], ast.NotEq: [True]}.get(type(op), [True, False])
            if a == Z:
                return {ast.Lt: [False], ast.LtE: [True], ast.Gt: [False], ast.GtE: [True], ast.Eq: [True], ast.NotEq: [False]}.get(type(op), [True, False])
            return [True, False]  # + vs + / - vs -
        return [True, False]

    def subscript(self, e: ast.Subscript, st: State):
        res = []
        for base, s1 in self.ev(e.value, st):
            if isinstance(base, Dq):
                if isinstance(e.slice, ast.Constant) and e.slice.value == 0 and base.items:
                    res.append((base.items[0], s1))
                else:
                    res.append((UNK, s1))
                continue
            if isinstance(base, Buf) and isinstance(e.slice, ast.Slice) and e.slice.upper is None and e.slice.lower is not None:
                for lo, s2 in self.ev(e.slice.lower, s1):
                    bn = e.value.id if isinstance(e.value, ast.Name) else None
                    ln = e.slice.lower.id if isinstance(e.slice.lower, ast.Name) else None
                    if lo == Z:
                        res.append((base, s2))
                    elif lo == P:
                        if bn and ln and ("lt", ln, bn) in s2.rel:
                            res.append((Buf(P, base.ident + "'"), s2))  # strict, non-empty suffix
                        elif base.sign == Z:
                            res.append((Buf(Z, base.ident), s2))
                        else:
                            res.append((Buf(P, base.ident + "'"), s2.copy()))
                            res.append((Buf(Z, base.ident + "'"), s2.copy()))
                    else:
                        res.append((Buf(base.sign, base.ident), s2))
                continue
            if isinstance(base, Tup) and isinstance(e.slice, ast.Constant) and isinstance(e.slice.value, int) and e.slice.value < len(base.items):
                res.append((base.items[e.slice.value], s1))
                continue
            res.append((UNK, s1))
        return res

    # ------------------------------------------------------------------ calls
    def call(self, e: ast.Call, st: State):
        f = e.func
        if isinstance(f, ast.Name) and self.fn is not None:
            # a local bound once to a lambda / functools.partial (`try_send = functools.partial(_send_noblock, sock, buffers)`)
            from .buffers import through_local
            f2 = through_local(self.fn, f)
            if isinstance(f2, ast.Lambda) or (isinstance(f2, ast.Call) and (dotted(f2.func) or "").split(".")[-1] == "partial"):
                f = f2
        # a callback written as a zero-argument lambda or a functools.partial: call what it wraps
        if isinstance(f, ast.Lambda) and not e.args and not e.keywords and not f.args.args:
            return self.ev(f.body, st)
        if isinstance(f, ast.Call) and (dotted(f.func) or "").split(".")[-1] == "partial" and f.args:
            inner = ast.Call(func=f.args[0], args=list(f.args[1:]) + list(e.args), keywords=list(f.keywords) + list(e.keywords))
            ast.copy_location(inner, e)
            return self.call(inner, st)
        name = f.attr if isinstance(f, ast.Attribute) else getattr(f, "id", "")
        if name == "len" and e.args:
            res = []
            for v, s in self.ev(e.args[0], st):
                if isinstance(v, Buf):
                    res.append((v.sign, s))
                elif isinstance(v, Dq):
                    res.append((P if v.items else Z, s))
                else:
                    res.append((UNK, s))
            return res
        if name in ("memoryview", "bytes", "cast") and (e.args or isinstance(f, ast.Attribute)):
            src = e.args[0] if (e.args and name != "cast") else (f.value if isinstance(f, ast.Attribute) else None)
            if name == "cast":
                src = f.value
            return self.ev(src, st) if src is not None else [(UNK, st)]
        if isinstance(f, ast.Attribute):
            recv_name = dotted(f.value)
            for recv, s in self.ev(f.value, st):
                if isinstance(recv, Dq):
                    return self.deque_method(name, e, recv, recv_name, s)
                break
        if name in self.stubs:
            return self.stubs[name](self, e, st)
        # repo callee: inline
        tg = [t for t in self.engine.typer.call_targets(self.fn, e, dispatch=False) if isinstance(t, FunctionInfo)] if self.fn else []
        if len(tg) == 1 and not tg[0].is_async and not isinstance(tg[0].node, ast.Lambda):
            return self.inline(tg[0], e, st)
        nested = self.fn.nested.get(name) if self.fn else None
        if nested is not None and isinstance(f, ast.Name):
            return self.inline(nested, e, st)
        return [(UNK, st)]

    def deque_method(self, name, e, dq: Dq, recv_name, st: State):
        s = st.copy()
        if name == "popleft":
            if not dq.items:
                return []  # IndexError: not a termination problem
            s.env[recv_name] = Dq(dq.items[1:])
            s.progress = True
            return [(dq.items[0], s)]
        if name == "appendleft" and e.args:
            res = []
            for v, s2 in self.ev(e.args[0], st):
                s3 = s2.copy()
                cur = s3.env[recv_name]
                if isinstance(v, Buf) and v.ident.endswith("'"):
                    s3.progress = True  # replaced by a strict suffix of a popped element
                    v = Buf(v.sign, v.ident.rstrip("'"))
                s3.env[recv_name] = Dq(((v if isinstance(v, Buf) else Buf(P)),) + cur.items)
                res.append((UNK, s3))
            return res
        if name in ("append",) and e.args:
            res = []
            for v, s2 in self.ev(e.args[0], st):
                s3 = s2.copy()
                cur = s3.env[recv_name]
                s3.env[recv_name] = Dq(cur.items + ((v if isinstance(v, Buf) else Buf(P)),))
                res.append((UNK, s3))
            return res
        return [(UNK, st)]

    def inline(self, g: FunctionInfo, e: ast.Call, st: State):
        params = [a.arg for a in g.node.args.posonlyargs + g.node.args.args]
        if g.cls is not None and g.parent is None and not g.has_decorator("staticmethod"):
            params = params[1:]
        outs = [((), st)]
        for a in e.args:
            outs = [(acc + (v,), s2) for acc, s1 in outs for v, s2 in self.ev(a, s1)]
        res = []
        for vals, s in outs:
            callee = SignInterp(self.engine, g, self.stubs, self.max_deque)
            callee.steps = self.steps
            cs = State(progress=s.progress)
            # by-reference deques: bind callee param to caller's object via shared name
            alias = {}
            for p, a, v in zip(params, e.args, vals):
                cs.env[p] = v
                if isinstance(v, Dq) and dotted(a):
                    alias[p] = dotted(a)
            if g.parent is not None:
                # closure variables
                for k, v in s.env.items():
                    cs.env.setdefault(k, v)
            out = callee.block(g.node.body, [cs])
            self.steps = callee.steps
            self.no_progress += callee.no_progress
            self.iterations += callee.iterations
            finals = [(x, None) for x in out.normal] + list(out.ret)
            for fs, rv in finals:
                s2 = s.copy()
                s2.progress = fs.progress
                for p, cname in alias.items():
                    s2.env[cname] = fs.env.get(p, s2.env.get(cname))
                res.append((rv if rv is not None else UNK, s2))
        return res

    # ------------------------------------------------------------------ statements
    def assign(self, target: ast.AST, value: Any, st: State, value_expr: ast.AST | None = None):
        if isinstance(target, ast.Name):
            st.kill(target.id)
            st.env[target.id] = value
            if isinstance(value_expr, ast.Call) and getattr(value_expr.func, "id", "") == "len" and value_expr.args and isinstance(value_expr.args[0], ast.Name):
                st.lenof[target.id] = value_expr.args[0].id
        elif isinstance(target, ast.Tuple):
            items = value.items if isinstance(value, Tup) else [UNK] * len(target.elts)
            for t, v in zip(target.elts, items):
                self.assign(t, v, st)
        elif isinstance(target, ast.Subscript):
            base = dotted(target.value)
            cur = st.env.get(base)
            if isinstance(cur, Dq) and isinstance(target.slice, ast.Constant) and target.slice.value == 0 and cur.items:
                nv = value if isinstance(value, Buf) else Buf(P)
                if nv.ident.endswith("'") and nv.ident != cur.items[0].ident:
                    st.progress = True  # head replaced by a strict suffix of itself
                    nv = Buf(nv.sign, nv.ident.rstrip("'"))
                st.env[base] = Dq((nv,) + cur.items[1:])
        elif isinstance(target, ast.Attribute):
            d = dotted(target)
            if d:
                st.env[d] = value

    def block(self, stmts: list[ast.stmt], states: list[State]) -> Outcome:
        out = Outcome()
        cur = states
        for stn in stmts:
            if not cur:
                break
            nxt: list[State] = []
            for s in cur:
                r = self.stmt(stn, s)
                nxt += r.normal
                out.brk += r.brk
                out.ret += r.ret
                out.exc += r.exc
                out.cont += r.cont
            cur = self._dedupe(nxt)
        out.normal = cur
        return out

    def _dedupe(self, states: list[State]) -> list[State]:
        seen = {}
        for s in states:
            seen.setdefault(s.key(), s)
        return list(seen.values())

    def stmt(self, n: ast.stmt, st: State) -> Outcome:
        out = Outcome()
        if isinstance(n, (ast.Pass, ast.Import, ast.ImportFrom, ast.Global, ast.Nonlocal, ast.FunctionDef, ast.AsyncFunctionDef, ast.Assert)):
            out.normal = [st]
            return out
        if isinstance(n, ast.Expr):
            if isinstance(n.value, ast.Constant):
                out.normal = [st]
                return out
            out.normal = [s for _, s in self.ev(n.value, st)]
            return out
        if isinstance(n, (ast.Assign, ast.AnnAssign)):
            if getattr(n, "value", None) is None:
                out.normal = [st]
                return out
            for v, s in self.ev(n.value, st):
                s = s.copy()
                for t in (n.targets if isinstance(n, ast.Assign) else [n.target]):
                    self.assign(t, v, s, n.value)
                out.normal.append(s)
            return out
        if isinstance(n, ast.AugAssign):
            tname = n.target.id if isinstance(n.target, ast.Name) else None
            if tname is None:
                # `self.counter += 1`, `d[k] += v`: not a local of the abstract state - evaluate the right-hand side for its effects only
                for _v, s in self.ev(n.value, st):
                    out.normal.append(s)
                return out
            for v, s in self.ev(n.value, st):
                s = s.copy()
                cur = s.env.get(tname, UNK)
                if isinstance(n.op, ast.Add):
                    nv = self._add(cur, v)[0]
                    if v == P and tname in self.loop_counters:
                        s.progress = True
                elif isinstance(n.op, ast.Sub):
                    for nv2 in self._sub(cur, v):
                        s2 = s.copy()
                        s2.kill(tname)
                        s2.env[tname] = nv2
                        out.normal.append(s2)
                    continue
                else:
                    nv = UNK
                s.kill(tname)
                s.env[tname] = nv
                out.normal.append(s)
            return out
        if isinstance(n, ast.Delete):
            for t in n.targets:
                if isinstance(t, ast.Subscript):
                    base = dotted(t.value)
                    cur = st.env.get(base)
                    if isinstance(cur, Dq) and isinstance(t.slice, ast.Constant) and t.slice.value == 0 and cur.items:
                        st = st.copy()
                        st.env[base] = Dq(cur.items[1:])
                        st.progress = True
                elif isinstance(t, ast.Name):
                    st = st.copy()
                    st.env.pop(t.id, None)
            out.normal = [st]
            return out
        if isinstance(n, ast.If):
            for tv, s in self.truth(n.test, st):
                r = self.block(n.body if tv else n.orelse, [s])
                out.normal += r.normal
                out.brk += r.brk
                out.ret += r.ret
                out.exc += r.exc
                out.cont += r.cont
            return out
        if isinstance(n, ast.While):
            return self.loop(n, st)
        if isinstance(n, ast.Break):
            out.brk = [st]
            return out
        if isinstance(n, ast.Continue):
            out.cont = [st]
            return out
        if isinstance(n, ast.Return):
            if n.value is None:
                out.ret = [(st, None)]
            else:
                out.ret = [(s, v) for v, s in self.ev(n.value, st)]
            return out
        if isinstance(n, ast.Raise):
            out.exc = [st]
            return out
        if isinstance(n, (ast.With, ast.AsyncWith)):
            states = [st]
            for it in n.items:
                new = []
                for s in states:
                    for v, s2 in self.ev(it.context_expr, s):
                        s2 = s2.copy()
                        if it.optional_vars is not None:
                            self.assign(it.optional_vars, v, s2, it.context_expr)
                        new.append(s2)
                states = new
            return self.block(n.body, states)
        if isinstance(n, ast.Try):
            r = self.block(n.body, [st])
            # handlers are error paths (leave the loop by exception): not progress-relevant
            if n.orelse:
                r2 = self.block(n.orelse, r.normal)
                r.normal = r2.normal
                r.brk += r2.brk
                r.ret += r2.ret
                r.cont += r2.cont
            if n.finalbody:
                r3 = self.block(n.finalbody, r.normal)
                r.normal = r3.normal
            return r
        raise Unsupported(f"sign interpreter: unsupported statement {type(n).__name__} at line {n.lineno} of {self.fn.qualname}")

    def loop(self, n: ast.While, st: State) -> Outcome:
        """Every iteration from every reachable abstract state must make progress (or leave the loop)."""
        out = Outcome()
        counters = {x.id for x in ast.walk(n.test) if isinstance(x, ast.Name)}
        saved = self.loop_counters
        self.loop_counters = self.loop_counters | counters
        seen: dict = {}
        work = [st]
        while work:
            s0 = work.pop()
            k = (tuple(sorted((a, repr(b)) for a, b in s0.env.items())), s0.rel)
            if k in seen:
                continue
            seen[k] = True
            for tv, s in self.truth(n.test, s0):
                if not tv:
                    out.normal.append(s)
                    continue
                self.iterations += 1
                entry_progress = s.progress
                s = s.copy()
                s.progress = False
                r = self.block(n.body, [s])
                out.ret += [(x, v) for x, v in r.ret]
                out.exc += r.exc
                for b in r.brk:
                    b.progress = entry_progress or b.progress
                    out.normal.append(b)
                for e in r.normal + r.cont:
                    if not e.progress:
                        self.no_progress.append((n, s0))
                    else:
                        nx = e.copy()
                        nx.progress = True
                        work.append(nx)
        self.loop_counters = saved
        out.normal = self._dedupe(out.normal)
        return out
