"""Acquire/release pairing typestate for explicit `lock.acquire(...)` calls (DESIGN.md 10.9).

fact = frozenset of tags:
  "held"         the lock has been acquired and nothing guarantees its release yet
  "arr"          its release is arranged (pushed on an exit stack / registered as a callback / entered through `with`)
  ("ok", id)     the acquire call with that node id succeeded on this path
  ("fail", id)   ... failed on this path
Outcome tags make `if lock.acquire(False): ...`, `ok = lock.acquire(False)` ... `if ok:` and `if t == 0 or not lock.acquire(True, t): raise`
path sensitive.  Violations: exit (return / exception / close at a yield) with "held"; a release registered on a path that does
not hold the lock; a `yield` of a context-manager generator reached without the lock."""
from __future__ import annotations

import ast
from typing import Any

from ..db import dotted
from ..flow import WithEnter, WithExit, call_of
from .base import RuleAnalysis

REGISTER = ("push", "callback", "enter_context")


class LockPairing(RuleAnalysis):
    tokens = ("Exception",)
    short_circuit_tests = True

    def __init__(self, engine, lock_name: str, yields_need_lock: bool = True) -> None:
        super().__init__(engine)
        self.lock = lock_name
        self.yields_need_lock = yields_need_lock
        self.viol: list[tuple[Any, str]] = []
        self.acquires = 0
        self.registrations = 0
        self.yields = 0

    def initial(self, fn):
        return [frozenset()]

    def _is_lock(self, e: ast.AST | None) -> bool:
        from .buffers import through_local
        if e is None:
            return False
        if isinstance(e, ast.Name) and self.fn is not None:
            e = through_local(self.fn, e)
        return dotted(e) == self.lock

    def may_raise(self, node, fact):
        if isinstance(node, (ast.Yield, ast.YieldFrom, ast.Await)):
            return ["Exception"]
        if isinstance(node, ast.Raise):
            return ["Exception"]
        c = call_of(node)
        if isinstance(node, ast.Call) and c is not None and isinstance(c.func, ast.Attribute) and self._is_lock(c.func.value):
            return []  # acquire / release themselves: failure is the boolean result
        if isinstance(node, ast.Call) and c is not None and isinstance(c.func, ast.Attribute) and c.func.attr in REGISTER \
                and any(self._is_lock(a) or (isinstance(a, ast.Attribute) and self._is_lock(a.value)) for a in c.args):
            return []  # registering the release on an exit stack does not fail (trusted: contextlib)
        if isinstance(node, ast.Call):
            return ["Exception"]
        return []

    def _note(self, node, why):
        if not any(n is node for n, _ in self.viol):
            self.viol.append((node, why))

    def transfer(self, node: Any, fact):
        f: frozenset = fact
        if isinstance(node, WithEnter) and self._is_lock(node.item.context_expr):
            self.registrations += 1
            return [f | {"with"}]
        if isinstance(node, (ast.Yield, ast.YieldFrom)):
            self.yields += 1
            if self.yields_need_lock and not ({"held", "arr", "with"} & f):
                self._note(node, "the body of the context manager runs on a path on which the lock is not held")
            return [f]
        c = call_of(node)
        if not isinstance(node, ast.Call) or c is None or not isinstance(c.func, ast.Attribute):
            return [f]
        attr = c.func.attr
        if self._is_lock(c.func.value):
            if attr == "acquire":
                self.acquires += 1
                blocking_forever = not c.args and not c.keywords
                ok = f | {"held", ("ok", id(c))}
                return [ok] if blocking_forever else [ok, f | {("fail", id(c))}]
            if attr == "release":
                if "held" in f:
                    return [f - {"held"}]
                if not ({"arr", "with"} & f):
                    self._note(node, "the lock is released on a path on which it has not been acquired (it may be held by another thread)")
                return [f]
            return [f]
        if attr in REGISTER and any(self._is_lock(a) or (isinstance(a, ast.Attribute) and a.attr == "release" and self._is_lock(a.value)) for a in c.args):
            self.registrations += 1
            if attr == "enter_context":
                return [f | {"arr"}]
            if "held" not in f:
                self._note(node, "the release of the lock is registered on a path on which the lock has not been acquired: when the acquire fails the exit stack releases a lock held by another thread")
            return [(f - {"held"}) | {"arr"}]
        return [f]

    def with_exit(self, node: WithExit, fact):
        f: frozenset = fact
        if self._is_lock(node.item.context_expr):
            f = f - {"with"}
        ce = node.item.context_expr
        if isinstance(ce, ast.Call) and (dotted(ce.func) or "").split(".")[-1] in ("ExitStack", "AsyncExitStack"):
            f = f - {"arr"}  # the stack runs the registered releases
        return [(node.kind, node.token, f)]

    def branch(self, test, fact):
        t, neg = test, False
        while isinstance(t, ast.UnaryOp) and isinstance(t.op, ast.Not):
            neg = not neg
            t = t.operand
        if isinstance(t, ast.Call) and isinstance(t.func, ast.Attribute) and t.func.attr == "acquire" and self._is_lock(t.func.value):
            if ("ok", id(t)) in fact:
                tr, fl = [fact], []
            elif ("fail", id(t)) in fact:
                tr, fl = [], [fact]
            else:
                tr, fl = [fact], [fact]
            return (fl, tr) if neg else (tr, fl)
        return [fact], [fact]


def check_pairing(eng, fn, lock_name: str):
    """Run the typestate on `fn`; returns (analysis, list of (node|None, message))."""
    from ..flow import Interp
    an = LockPairing(eng, lock_name, yields_need_lock=fn.has_decorator("contextmanager", "asynccontextmanager"))
    out = Interp(an, fn).run()
    probs = list(an.viol)
    leaks = []
    for f, tr in out.ret.items():
        if "held" in f:
            leaks.append(("return", tr))
    for tok, d in out.exc.items():
        for f, tr in d.items():
            if "held" in f:
                leaks.append((f"exception exit ({tok})", tr))
    for kind, tr in leaks[:1]:
        probs.append((tr[-1] if tr else None, f"an acquired lock is still held at a {kind} and nothing releases it: every later caller times out on the lock or blocks for ever"))
    return an, probs
