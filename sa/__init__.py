"""Static-analysis engine for EasyNetwork (see /verif/DESIGN.md section 2).

Nothing in this package imports or executes any `easynetwork` module: every fact is read from the
source text under $VERIF_REPO (default /repo) through `ast`.
"""
