"""Thorough tier: the rules are tested both ways on AST-computed variants of the *current* tree
(DESIGN.md section 7): every mutant must be reported by the named rule, every benign twin must leave the
set of findings unchanged.  A rule that is blind to a mutant or alarms on a twin makes the run exit 2.
"""
from __future__ import annotations

import os
import random
import time
import traceback
from concurrent.futures import ProcessPoolExecutor

from .db import AnalysisError
from .mutate import MutationError, Variant, build_overlay


def _reader(rel: str) -> str:
    repo = os.environ.get("VERIF_REPO", "/repo")
    with open(os.path.join(repo, rel), encoding="utf-8") as fh:
        return fh.read()


_DIGESTS: dict | None = None


def module_is_pinned(rel: str) -> bool:
    """is the source file `rel` of the tree under analysis byte-identical to the pinned tree the corpora were written against
    (corpus_digests.json)?  On a tree where it is not, a variant touching it is skipped - it is the tree that changed, not the
    machinery that broke."""
    global _DIGESTS
    import hashlib
    import json
    if _DIGESTS is None:
        try:
            with open(os.path.join(os.path.dirname(os.path.dirname(os.path.abspath(__file__))), "corpus_digests.json")) as fh:
                _DIGESTS = json.load(fh).get("files", {})
        except OSError:
            _DIGESTS = {}
    want = _DIGESTS.get(rel)
    if want is None:
        return True
    try:
        return hashlib.sha256(_reader(rel).encode("utf-8")).hexdigest() == want
    except OSError:
        return False


def variant_modules(v) -> list[str]:
    out = []
    for fnq, _ in [(v.fn, v.edit)] + list(v.also or []):
        out.append("src/easynetwork/" + fnq.partition(":")[0].replace(".", "/") + ".py")
    return out


def _findings_for(prop: str, overlay: dict | None):
    import importlib

    from .engine import Engine
    from .report import Run

    mod = importlib.import_module(f"rules.{prop.lower()}")
    eng = Engine(None, overlay)
    run = Run(prop, "selftest")
    run.quiet = True
    mod.run(eng, run)
    return [(f.rule, f.function, f.statement, f.message) for f in run.findings], len(run.obligations)


def _job(args):
    prop, kind, idx = args
    import importlib

    mod = importlib.import_module(f"rules.{prop.lower()}")
    v: Variant = (mod.MUTANTS if kind == "mutant" else mod.BENIGN)[idx]
    t0 = time.time()
    if not all(module_is_pinned(rel) for rel in variant_modules(v)):
        return (kind, v.name, "skipped", "the module it edits differs from the pinned tree", 0, 0.0)
    try:
        overlay = build_overlay(_reader, v)
        findings, n_ob = _findings_for(prop, overlay)
        return (kind, v.name, "ok", findings, n_ob, time.time() - t0)
    except MutationError as exc:
        return (kind, v.name, "mutation-error", str(exc), 0, time.time() - t0)
    except AnalysisError as exc:
        return (kind, v.name, "analysis-error", str(exc), 0, time.time() - t0)
    except Exception as exc:  # noqa: BLE001
        return (kind, v.name, "crash", f"{type(exc).__name__}: {exc}\n{traceback.format_exc()}", 0, time.time() - t0)


def run_selftest(prop: str, mod, run, seed: int = 0, jobs: int | None = None) -> None:
    mutants = list(getattr(mod, "MUTANTS", []))
    benign = list(getattr(mod, "BENIGN", []))
    base = {(f.rule, f.function, f.statement) for f in run.findings}
    work = [(prop, "mutant", i) for i in range(len(mutants))] + [(prop, "benign", i) for i in range(len(benign))]
    random.Random(seed).shuffle(work)
    results = []
    if work:
        with ProcessPoolExecutor(max_workers=jobs or min(16, len(work))) as ex:
            results = list(ex.map(_job, work))
    problems: list[str] = []
    rows = []
    byname = {("mutant", v.name): v for v in mutants}
    byname.update({("benign", v.name): v for v in benign})
    for kind, name, status, payload, n_ob, dt in results:
        v = byname[(kind, name)]
        if status == "skipped":
            rows.append({"variant": name, "kind": kind, "status": "skipped", "why": payload})
            continue
        if status == "mutation-error":
            problems.append(f"{kind} {name}: cannot be generated on this tree: {payload}")
            rows.append({"variant": name, "kind": kind, "status": status})
            continue
        if status == "crash":
            problems.append(f"{kind} {name}: engine crashed: {payload}")
            rows.append({"variant": name, "kind": kind, "status": status})
            continue
        if kind == "mutant":
            if status == "analysis-error":
                # an anchor that vanishes because of the mutation is a detection too (exit 2 on the mutated tree),
                # but we require a proper report
                problems.append(f"mutant {name}: analysis error instead of a finding: {payload}")
                rows.append({"variant": name, "kind": kind, "status": status})
                continue
            new = [f for f in payload if (f[0], f[1], f[2]) not in base]
            want_fn = (v.expect_fn or v.fn)
            hit = [f for f in new if f[0].startswith(v.expect or prop) and (want_fn.split(":")[-1].split(".<locals>.")[0].split(".")[-1] in f[1] or want_fn in f[1])]
            rows.append({"variant": name, "kind": kind, "reported": bool(hit), "new_findings": len(new),
                         "rule": hit[0][0] if hit else None, "why": v.why})
            if not hit:
                problems.append(f"rule {v.expect or prop} blind to mutant {name} (new findings: {[(f[0], f[1]) for f in new]})")
        else:
            if status == "analysis-error":
                problems.append(f"benign twin {name}: analysis error: {payload}")
                rows.append({"variant": name, "kind": kind, "status": status})
                continue
            got = {(f[0], f[1].split(":")[0]) for f in payload}
            want = {(r, fn.split(":")[0]) for r, fn, _ in base}
            extra = [f for f in payload if (f[0], f[1].split(":")[0]) not in want]
            rows.append({"variant": name, "kind": kind, "silent": not extra, "why": v.why})
            if extra:
                problems.append(f"rule alarms on benign twin {name}: {[(f[0], f[1], f[3]) for f in extra]}")
    run.selftest = {
        "mutants": len(mutants),
        "benign_twins": len(benign),
        "mutants_reported": sum(1 for r in rows if r["kind"] == "mutant" and r.get("reported")),
        "twins_silent": sum(1 for r in rows if r["kind"] == "benign" and r.get("silent")),
        "skipped_because_the_tree_differs_from_the_pinned_one": sum(1 for r in rows if r.get("status") == "skipped"),
        "rows": rows,
    }
    for r in rows:
        if r.get("status") == "skipped":
            continue
        if r["kind"] == "mutant":
            run.ob(f"{prop}.selftest.must-fire", r["variant"], bool(r.get("reported")), reported_by=r.get("rule"))
        else:
            run.ob(f"{prop}.selftest.must-stay-silent", r["variant"], bool(r.get("silent")))
    if problems:
        raise AnalysisError("self-test: " + " ;; ".join(problems))


# ----------------------------------------------------------------------------------------------- filed corpora (seeded/, benign/)
def _corpus_job(args):
    prop, kind, d = args
    from .patchov import overlay_for, patch_files
    patch = os.path.join(d, "patch.diff")
    try:
        if not all(module_is_pinned(rel) for rel in patch_files(patch)):
            return (kind, os.path.basename(d), "skipped", "a file it touches differs from the pinned tree")
        ov, err = overlay_for(patch)
        if ov is None:
            return (kind, os.path.basename(d), "skipped", "the patch does not apply to this tree")
        findings, _ = _findings_for(prop, ov)
        return (kind, os.path.basename(d), "ok", findings)
    except AnalysisError as exc:
        return (kind, os.path.basename(d), "analysis-error", str(exc))
    except Exception as exc:  # noqa: BLE001
        return (kind, os.path.basename(d), "crash", f"{type(exc).__name__}: {exc}")


def run_corpora(prop: str, run, jobs: int | None = None) -> None:
    """the filed corpora: every seeded change of this property must be reported by this property's rules, every behaviour-preserving
    refactoring must leave them silent (both only where the files they touch are those of the pinned tree)"""
    root = os.path.dirname(os.path.dirname(os.path.abspath(__file__)))
    seeded = sorted(os.path.join(root, "seeded", x) for x in os.listdir(os.path.join(root, "seeded")) if x.startswith(prop + "-")) if os.path.isdir(os.path.join(root, "seeded")) else []
    benign = sorted(os.path.join(root, "benign", x) for x in os.listdir(os.path.join(root, "benign")) if os.path.isdir(os.path.join(root, "benign", x))) if os.path.isdir(os.path.join(root, "benign")) else []
    # refactorings that rename / inline / move an anchor the rules locate by name: the designed answer is ANALYSIS-ERROR (exit 2), and the
    # corpus checks that it is never a VIOLATION
    unf_root = os.path.join(root, "benign_unfollowed")
    unfollowed = sorted(os.path.join(unf_root, x) for x in os.listdir(unf_root) if os.path.isdir(os.path.join(unf_root, x))) if os.path.isdir(unf_root) else []
    work = [(prop, "seeded", d) for d in seeded if os.path.exists(os.path.join(d, "patch.diff"))] + [(prop, "benign", d) for d in benign if os.path.exists(os.path.join(d, "patch.diff"))] \
        + [(prop, "unfollowed", d) for d in unfollowed if os.path.exists(os.path.join(d, "patch.diff"))]
    if not work:
        return
    base = {(f.rule, f.function, f.statement) for f in run.findings}
    base_rf = {(f.rule, f.function) for f in run.findings}
    with ProcessPoolExecutor(max_workers=jobs or min(16, len(work))) as ex:
        results = list(ex.map(_corpus_job, work))
    honest = set()
    try:
        import json
        honest = set(json.load(open(os.path.join(root, "seeded", "HONEST_MISSES.json"))).get("ids", []))
    except (OSError, ValueError):
        pass
    problems = []
    stats = {"seeded": 0, "seeded_reported": 0, "benign": 0, "benign_silent": 0, "skipped": 0}
    for kind, name, status, payload in results:
        if status == "skipped":
            stats["skipped"] += 1
            continue
        if kind == "seeded":
            stats["seeded"] += 1
            hit = status == "ok" and any((f[0], f[1], f[2]) not in base and f[0].startswith(prop) for f in payload)  # an analysis error is not a report
            if status == "crash":
                problems.append(f"seeded {name}: engine crashed: {payload}")
            elif hit:
                stats["seeded_reported"] += 1
            elif name not in honest:
                problems.append(f"seeded change {name} is no longer reported by the rules of {prop}")
            run.ob(f"{prop}.corpus.seeded-reported", name, bool(hit) or name in honest, honest_miss=name in honest)
        elif kind == "unfollowed":
            stats["unfollowed"] = stats.get("unfollowed", 0) + 1
            if status == "crash":
                problems.append(f"unfollowed refactoring {name}: engine crashed: {payload[:200]}")
            elif status == "ok":
                extra = [f for f in payload if (f[0], f[1], f[2]) not in base and (f[0], f[1]) not in base_rf]
                if extra:
                    problems.append(f"rule alarms (VIOLATION instead of analysis error) on refactoring {name}: {[(f[0], f[1].split(':')[-1], f[3][:80]) for f in extra[:2]]}")
                run.ob(f"{prop}.corpus.unfollowed-never-a-violation", name, not extra)
            else:
                stats["unfollowed_exit2"] = stats.get("unfollowed_exit2", 0) + 1
                run.ob(f"{prop}.corpus.unfollowed-never-a-violation", name, True, answered="analysis-error")
        else:
            stats["benign"] += 1
            if status in ("analysis-error", "crash"):
                problems.append(f"benign refactoring {name}: {status}: {payload[:200]}")
                run.ob(f"{prop}.corpus.benign-silent", name, False)
                continue
            extra = [f for f in payload if (f[0], f[1], f[2]) not in base and (f[0], f[1]) not in base_rf]
            if extra:
                problems.append(f"rule alarms on benign refactoring {name}: {[(f[0], f[1].split(':')[-1], f[3][:80]) for f in extra[:2]]}")
            else:
                stats["benign_silent"] += 1
            run.ob(f"{prop}.corpus.benign-silent", name, not extra)
    run.selftest = dict(getattr(run, "selftest", None) or {}, corpora=stats)
    if problems:
        raise AnalysisError("corpora: " + " ;; ".join(problems))
