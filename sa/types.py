"""Annotation-driven type and call resolution (DESIGN.md section 2.2 / 2.4).

mypy is not available; the repository is fully annotated, so receiver types are read from annotations:
`self.attr: T = ...`, dataclass/class fields, parameters, return annotations, and simple local bindings.
A type is a `T` record: kind 'repo' (ClassInfo), 'ext' (dotted external class name), 'module' (module
object: repo Module or external dotted), 'cls' (the class object itself, i.e. type[C]).
"""
from __future__ import annotations

import ast
from dataclasses import dataclass
from typing import Any

from .db import DB, ClassInfo, FunctionInfo, Module, dotted, mangle, own_nodes


@dataclass(frozen=True)
class T:
    kind: str  # 'repo' | 'ext' | 'module' | 'cls' | 'extmodule' | 'func'
    ref: Any

    @property
    def name(self) -> str:
        if self.kind in ("repo", "cls"):
            return self.ref.qualname
        if self.kind == "module":
            return self.ref.name
        if self.kind == "func":
            return self.ref.qualname
        return str(self.ref)

    def __repr__(self) -> str:
        return f"{self.kind}:{self.name}"


_WRAPPERS = {"Optional", "Final", "ClassVar", "Annotated", "Required", "NotRequired", "type", "Type"}
_TRANSPARENT_RESULT = {"Awaitable", "Coroutine"}  # handled by await


class Typer:
    def __init__(self, db: DB) -> None:
        self.db = db
        self._locals_cache: dict[int, dict[str, list[ast.AST]]] = {}
        self.unresolved: list[tuple[str, int, str]] = []

    # ------------------------------------------------------------ annotations
    def ann_types(self, m: Module, ann: ast.AST | None, fn: FunctionInfo | None = None, _depth: int = 0) -> list[T]:
        if ann is None or _depth > 6:
            return []
        if isinstance(ann, ast.Constant):
            if isinstance(ann.value, str):
                try:
                    return self.ann_types(m, ast.parse(ann.value, mode="eval").body, fn, _depth + 1)
                except SyntaxError:
                    return []
            return []
        if isinstance(ann, ast.BinOp) and isinstance(ann.op, ast.BitOr):
            return self.ann_types(m, ann.left, fn, _depth + 1) + self.ann_types(m, ann.right, fn, _depth + 1)
        if isinstance(ann, ast.Subscript):
            base = dotted(ann.value)
            last = base.split(".")[-1] if base else ""
            if last in _WRAPPERS:
                inner = ann.slice.elts[0] if isinstance(ann.slice, ast.Tuple) else ann.slice
                ts = self.ann_types(m, inner, fn, _depth + 1)
                if last in ("type", "Type"):
                    return [T("cls", t.ref) if t.kind == "repo" else t for t in ts]
                return ts
            if last == "Union":
                elts = ann.slice.elts if isinstance(ann.slice, ast.Tuple) else [ann.slice]
                out: list[T] = []
                for e in elts:
                    out += self.ann_types(m, e, fn, _depth + 1)
                return out
            return self.ann_types(m, ann.value, fn, _depth + 1)
        d = dotted(ann)
        if d is None:
            return []
        if d in ("None", "Any", "object", "Self"):
            if d == "Self" and fn is not None and fn.cls is not None:
                return [T("repo", fn.cls)]
            return []
        obj = self.db.resolve(m, d, fn)
        if isinstance(obj, ClassInfo):
            return [T("repo", obj)]
        if isinstance(obj, Module):
            return [T("module", obj)]
        if isinstance(obj, ast.AST):
            # TypeAlias / TypeVar
            if isinstance(obj, ast.Call) and (dotted(obj.func) or "").split(".")[-1] in ("TypeVar", "TypeVarTuple", "ParamSpec"):
                for kw in obj.keywords:
                    if kw.arg in ("bound", "default"):
                        ts = self.ann_types(self._module_of_alias(m, d), kw.value, None, _depth + 1)
                        if ts:
                            return ts
                return []
            return self.ann_types(self._module_of_alias(m, d), obj, None, _depth + 1)
        if obj is None:
            ext = self.db.external_name(m, d, fn)
            head = ext.split(".")[0]
            if head == "easynetwork":
                return []
            if ext in ("socket", "ssl", "asyncio", "threading", "selectors", "errno", "contextlib", "math", "time"):
                return [T("extmodule", ext)]
            return [T("ext", ext)]
        return []

    def _module_of_alias(self, m: Module, d: str) -> Module:
        head = d.split(".")[0]
        tgt = m.imports.get(head)
        if tgt:
            modname = tgt.rsplit(".", 1)[0] if d.count(".") == 0 else tgt
            while modname and modname not in self.db.modules:
                modname = modname.rpartition(".")[0]
            if modname in self.db.modules:
                return self.db.modules[modname]
        return m

    # ------------------------------------------------------------ local bindings
    def local_bindings(self, fn: FunctionInfo) -> dict[str, list[ast.AST]]:
        """name -> list of binding descriptors: ('ann', expr) | ('val', expr) | ('with', ctx_expr, is_async) | ('for', iter) | ('exc', type_expr)"""
        key = id(fn)
        if key in self._locals_cache:
            return self._locals_cache[key]
        out: dict[str, list[Any]] = {}

        def bind(t: ast.AST, desc: Any) -> None:
            if isinstance(t, ast.Name):
                out.setdefault(t.id, []).append(desc)
            elif isinstance(t, (ast.Tuple, ast.List)):
                for i, e in enumerate(t.elts):
                    bind(e, ("elt", i, desc))
            elif isinstance(t, ast.Starred):
                bind(t.value, ("unknown",))

        for n in own_nodes(fn.node):
            if isinstance(n, ast.AnnAssign):
                bind(n.target, ("ann", n.annotation))
            elif isinstance(n, ast.Assign):
                for t in n.targets:
                    bind(t, ("val", n.value))
            elif isinstance(n, ast.NamedExpr):
                bind(n.target, ("val", n.value))
            elif isinstance(n, (ast.With, ast.AsyncWith)):
                for item in n.items:
                    if item.optional_vars is not None:
                        bind(item.optional_vars, ("with", item.context_expr, isinstance(n, ast.AsyncWith)))
            elif isinstance(n, (ast.For, ast.AsyncFor)):
                bind(n.target, ("for", n.iter))
            elif isinstance(n, ast.ExceptHandler) and n.name:
                out.setdefault(n.name, []).append(("exc", n.type))
        self._locals_cache[key] = out
        return out

    # ------------------------------------------------------------ expression types
    def expr_types(self, fn: FunctionInfo, e: ast.AST, _depth: int = 0) -> list[T]:
        if _depth > 8:
            return []
        m = fn.module
        if isinstance(e, ast.Await):
            return self.expr_types(fn, e.value, _depth + 1)
        if isinstance(e, ast.NamedExpr):
            return self.expr_types(fn, e.value, _depth + 1)
        if isinstance(e, ast.IfExp):
            return self.expr_types(fn, e.body, _depth + 1) + self.expr_types(fn, e.orelse, _depth + 1)
        if isinstance(e, ast.Name):
            return self._name_types(fn, e.id, _depth)
        if isinstance(e, ast.Attribute):
            return self._attr_types(fn, e, _depth)
        if isinstance(e, ast.Call):
            out: list[T] = []
            for tgt in self.call_targets(fn, e, dispatch=False, _depth=_depth + 1):
                if isinstance(tgt, FunctionInfo):
                    if tgt.name == "__init__" and tgt.cls is not None:
                        out.append(T("repo", tgt.cls))
                    elif not isinstance(tgt.node, ast.Lambda):
                        if tgt.has_decorator("contextmanager", "asynccontextmanager"):
                            out.append(T("ext", "contextlib._GeneratorContextManager"))
                        else:
                            out += self.ann_types(tgt.module, tgt.node.returns, tgt)
                elif isinstance(tgt, ClassInfo):
                    out.append(T("repo", tgt))
                elif isinstance(tgt, str):
                    r = EXTERNAL_RETURNS.get(tgt)
                    if r:
                        out.append(T("ext", r))
                    elif tgt and tgt[0].isalpha() and tgt.split(".")[-1][:1].isupper():
                        out.append(T("ext", tgt))  # external constructor
            return out
        if isinstance(e, ast.Subscript):
            return []
        return []

    def _name_types(self, fn: FunctionInfo, name: str, _depth: int) -> list[T]:
        m = fn.module
        f: FunctionInfo | None = fn
        while f is not None:
            selfn = f.self_name
            if name == selfn and f.cls is not None and f.parent is None:
                if f.has_decorator("classmethod"):
                    return [T("cls", f.cls)]
                return [T("repo", f.cls)]
            if not isinstance(f.node, ast.Lambda) or True:
                for a in f.params():
                    if a.arg == name:
                        ts = self.ann_types(m, a.annotation, f)
                        if ts:
                            return ts
                        return []
            b = self.local_bindings(f).get(name)
            if b:
                out: list[T] = []
                for desc in b:
                    out += self._binding_types(f, desc, _depth)
                # dedupe
                seen = []
                for t in out:
                    if t not in seen:
                        seen.append(t)
                return seen
            li = self.db.local_imports(f)
            if name in li:
                return self._global_types(m, li[name])
            f = f.parent
        if name in m.imports:
            return self._global_types(m, m.imports[name])
        if name in m.classes:
            return [T("cls", m.classes[name])]
        if name in m.functions:
            return [T("func", m.functions[name])]
        if name in m.assigns:
            return []
        return []

    def _global_types(self, m: Module, full: str) -> list[T]:
        obj = self.db.lookup(full)
        if isinstance(obj, Module):
            return [T("module", obj)]
        if isinstance(obj, ClassInfo):
            return [T("cls", obj)]
        if isinstance(obj, FunctionInfo):
            return [T("func", obj)]
        if obj is None and not full.startswith("easynetwork"):
            return [T("extmodule", full)]
        return []

    def _binding_types(self, f: FunctionInfo, desc: Any, _depth: int) -> list[T]:
        kind = desc[0]
        if kind == "ann":
            return self.ann_types(f.module, desc[1], f)
        if kind == "val":
            return self.expr_types(f, desc[1], _depth + 1)
        if kind == "with":
            ctx = desc[1]
            ts = self.expr_types(f, ctx, _depth + 1)
            out: list[T] = []
            for t in ts:
                if t.kind == "repo":
                    enter = t.ref.find_method("__aenter__" if desc[2] else "__enter__")
                    if enter is not None and enter.node.returns is not None:
                        r = self.ann_types(enter.module, enter.node.returns, enter)
                        out += [T("repo", t.ref) if (x.kind == "repo" and dotted(enter.node.returns) == "Self") else x for x in r] or [t]
                    else:
                        out.append(t)
                elif t.kind == "ext" and t.ref in ("contextlib.ExitStack", "contextlib.AsyncExitStack"):
                    out.append(t)
            # contextmanager-decorated repo functions: Iterator[X] / AsyncIterator[X]
            if isinstance(ctx, ast.Call):
                for tgt in self.call_targets(f, ctx, dispatch=False, _depth=_depth + 1):
                    if isinstance(tgt, FunctionInfo) and tgt.has_decorator("contextmanager", "asynccontextmanager"):
                        r = tgt.node.returns
                        if isinstance(r, ast.Subscript):
                            inner = r.slice.elts[0] if isinstance(r.slice, ast.Tuple) else r.slice
                            out += self.ann_types(tgt.module, inner, tgt)
            return out
        if kind == "exc":
            return self.ann_types(f.module, desc[1], f) if desc[1] is not None and not isinstance(desc[1], ast.Tuple) else []
        if kind == "elt":
            # tuple unpacking of a call whose return annotation is tuple[...]
            inner = desc[2]
            if inner[0] == "val" and isinstance(inner[1], (ast.Call, ast.Await)):
                call = inner[1].value if isinstance(inner[1], ast.Await) else inner[1]
                if isinstance(call, ast.Call):
                    for tgt in self.call_targets(f, call, dispatch=False, _depth=_depth + 1):
                        if isinstance(tgt, FunctionInfo) and not isinstance(tgt.node, ast.Lambda):
                            r = tgt.node.returns
                            if isinstance(r, ast.Subscript) and (dotted(r.value) or "").split(".")[-1] in ("tuple", "Tuple"):
                                elts = r.slice.elts if isinstance(r.slice, ast.Tuple) else [r.slice]
                                if desc[1] < len(elts):
                                    return self.ann_types(tgt.module, elts[desc[1]], tgt)
            return []
        return []

    def _attr_types(self, fn: FunctionInfo, e: ast.Attribute, _depth: int) -> list[T]:
        base_ts = self.expr_types(fn, e.value, _depth + 1)
        out: list[T] = []
        for bt in base_ts:
            out += self.member_types(fn, bt, e.attr, _depth)
        return out

    def member_types(self, fn: FunctionInfo, bt: T, attr: str, _depth: int = 0) -> list[T]:
        db = self.db
        if bt.kind == "repo":
            ci: ClassInfo = bt.ref
            lex = fn.cls.name if fn.cls is not None else None
            mattr = mangle(lex, attr)
            for c in ci.mro():
                if mattr in c.fields:
                    ts = self.ann_types(c.module, c.fields[mattr], c.methods.get("__init__"))
                    if ts:
                        return ts
                    break
            for c in ci.mro():
                if mattr in c.field_values:
                    out: list[T] = []
                    for f, val in c.field_values[mattr]:
                        if f is not None and isinstance(val, ast.AST) and not isinstance(val, (ast.AugAssign, ast.Assign)):
                            out += self.expr_types(f, val, _depth + 1)
                    if out:
                        return _dedupe(out)
            meth = ci.find_method(attr) or ci.find_method(mattr)
            if meth is not None:
                if meth.has_decorator("property", "cached_property"):
                    return self.ann_types(meth.module, meth.node.returns, meth)
                return [T("func", meth)]
            return []
        if bt.kind == "cls":
            ci = bt.ref
            meth = ci.find_method(attr)
            if meth is not None:
                return [T("func", meth)]
            nested = db.classes.get(f"{ci.qualname}.{attr}")
            if nested is not None:
                return [T("cls", nested)]
            return []
        if bt.kind == "module":
            obj = db.lookup(f"{bt.ref.name}.{attr}")
            if isinstance(obj, Module):
                return [T("module", obj)]
            if isinstance(obj, ClassInfo):
                return [T("cls", obj)]
            if isinstance(obj, FunctionInfo):
                return [T("func", obj)]
            return []
        if bt.kind == "extmodule":
            return [T("extmodule", f"{bt.ref}.{attr}")]
        if bt.kind == "ext":
            r = EXTERNAL_ATTRS.get(f"{bt.ref}.{attr}")
            if r:
                return [T("ext", r)]
            return [T("extmember", f"{bt.ref}.{attr}")] if False else []
        return []

    # ------------------------------------------------------------ calls
    def call_targets(self, fn: FunctionInfo, call: ast.Call, dispatch: bool = True, _depth: int = 0) -> list[Any]:
        """Targets of a call: FunctionInfo (repo function/method; __init__ for constructors),
        ClassInfo (repo class without explicit __init__), str (external dotted name), or [] if unresolved."""
        f = call.func
        db = self.db
        if _depth > 8:
            return []
        # super().m(...)
        if isinstance(f, ast.Attribute) and isinstance(f.value, ast.Call) and isinstance(f.value.func, ast.Name) and f.value.func.id == "super":
            if fn.cls is not None:
                mro = fn.cls.mro()[1:]
                for c in mro:
                    if f.attr in c.methods:
                        return [c.methods[f.attr]]
                for c in fn.cls.mro():
                    if c.external_bases:
                        return [f"{c.external_bases[0]}.{f.attr}"]
            return []
        if isinstance(f, ast.Name):
            ts = self._name_types(fn, f.id, _depth)
            return self._callable_targets(ts, dispatch) or ([f"builtins.{f.id}"] if f.id in _BUILTINS else [])
        if isinstance(f, ast.Attribute):
            if isinstance(f.value, ast.Constant):
                return [f"builtins.{type(f.value.value).__name__}.{f.attr}"]
            base_ts = self.expr_types(fn, f.value, _depth + 1)
            out: list[Any] = []
            for bt in base_ts:
                if bt.kind == "repo":
                    lex = fn.cls.name if fn.cls is not None else None
                    name = mangle(lex, f.attr)
                    ci: ClassInfo = bt.ref
                    meth = ci.find_method(name) or ci.find_method(f.attr)
                    if meth is not None and meth.has_decorator("property"):
                        # calling the value of a property: unresolved callable
                        continue
                    if dispatch:
                        ov = db.overrides(ci, name) or db.overrides(ci, f.attr)
                        out += ov
                    elif meth is not None:
                        out.append(meth)
                    if meth is None:
                        # callable stored in a field
                        fts = self.member_types(fn, bt, f.attr, _depth + 1)
                        out += self._callable_targets(fts, dispatch)
                        if not fts:
                            ext = [e for c in ci.mro() for e in c.external_bases]
                            if ext:
                                out.append(f"{ext[0]}.{f.attr}")
                elif bt.kind == "cls":
                    meth = bt.ref.find_method(f.attr)
                    if meth is not None:
                        out.append(meth)
                    else:
                        nested = db.classes.get(f"{bt.ref.qualname}.{f.attr}")
                        if nested is not None:
                            out += self._callable_targets([T("cls", nested)], dispatch)
                elif bt.kind == "module":
                    obj = db.lookup(f"{bt.ref.name}.{f.attr}")
                    if isinstance(obj, FunctionInfo):
                        out.append(obj)
                    elif isinstance(obj, ClassInfo):
                        out += self._callable_targets([T("cls", obj)], dispatch)
                elif bt.kind == "extmodule":
                    out.append(f"{bt.ref}.{f.attr}")
                elif bt.kind == "ext":
                    out.append(f"{bt.ref}.{f.attr}")
                elif bt.kind == "func":
                    pass
            return _dedupe(out)
        return []

    def _callable_targets(self, ts: list[T], dispatch: bool) -> list[Any]:
        out: list[Any] = []
        for t in ts:
            if t.kind == "func":
                out.append(t.ref)
            elif t.kind == "cls":
                init = t.ref.find_method("__init__")
                out.append(init if init is not None else t.ref)
            elif t.kind == "extmodule":
                out.append(t.ref)
            elif t.kind == "ext":
                out.append(f"{t.ref}.__call__")
            elif t.kind == "repo":
                c = t.ref.find_method("__call__")
                if c is not None:
                    out.append(c)
        return out


def _dedupe(xs: list[Any]) -> list[Any]:
    out: list[Any] = []
    for x in xs:
        if x not in out:
            out.append(x)
    return out


import builtins as _builtins_mod

_BUILTINS = set(dir(_builtins_mod)) | {
    "len", "isinstance", "issubclass", "bytes", "bytearray", "memoryview", "int", "float", "str", "bool", "list", "dict",
    "set", "frozenset", "tuple", "min", "max", "iter", "next", "getattr", "setattr", "hasattr", "type", "super", "id",
    "repr", "map", "filter", "zip", "enumerate", "range", "sorted", "reversed", "sum", "any", "all", "callable", "print",
    "vars", "object", "round", "abs", "divmod", "hash", "aiter", "anext", "open",
}

# return types of a few external calls (only what the rules need to type receivers)
EXTERNAL_RETURNS: dict[str, str] = {
    "collections.deque": "collections.deque",
    "threading.Lock": "threading.Lock",
    "threading.RLock": "threading.RLock",
    "threading.Event": "threading.Event",
    "asyncio.Event": "asyncio.Event",
    "asyncio.Lock": "asyncio.Lock",
    "asyncio.get_running_loop": "asyncio.AbstractEventLoop",
    "asyncio.get_event_loop": "asyncio.AbstractEventLoop",
    "asyncio.AbstractEventLoop.create_future": "asyncio.Future",
    "contextlib.ExitStack": "contextlib.ExitStack",
    "contextlib.AsyncExitStack": "contextlib.AsyncExitStack",
    "ssl.MemoryBIO": "ssl.MemoryBIO",
    "ssl.SSLContext.wrap_bio": "ssl.SSLObject",
    "ssl.SSLContext.wrap_socket": "ssl.SSLSocket",
    "ssl.create_default_context": "ssl.SSLContext",
    "socket.socket": "socket.socket",
    "selectors.DefaultSelector": "selectors.BaseSelector",
    "io.BytesIO": "io.BytesIO",
}

EXTERNAL_ATTRS: dict[str, str] = {}
