"""Normal forms that make shape rules indifferent to how a maintainer happens to write the same thing:
mirrored / negated comparisons, locals introduced or inlined, private helpers extracted (DESIGN 10.8)."""
from __future__ import annotations

import ast
from typing import Iterator

from .analyses.buffers import assignments, linear
from .db import FunctionInfo, dotted, own_nodes

_FLIP = {ast.Lt: ast.Gt, ast.LtE: ast.GtE, ast.Gt: ast.Lt, ast.GtE: ast.LtE, ast.Eq: ast.Eq, ast.NotEq: ast.NotEq}
_NEG = {ast.Lt: ast.GtE, ast.LtE: ast.Gt, ast.Gt: ast.LtE, ast.GtE: ast.Lt, ast.Eq: ast.NotEq, ast.NotEq: ast.Eq, ast.Is: ast.IsNot, ast.IsNot: ast.Is, ast.In: ast.NotIn, ast.NotIn: ast.In}


def strip_not(test: ast.AST) -> tuple[ast.AST, bool]:
    neg = False
    while isinstance(test, ast.UnaryOp) and isinstance(test.op, ast.Not):
        test, neg = test.operand, not neg
    return test, neg


def lin_resolved(fn: FunctionInfo, e: ast.AST, depth: int = 4) -> dict[str, int] | None:
    """linear form of e with single-assignment locals replaced by their own linear definitions (so `end = idx + n; x[:end]` reads like
    `x[:idx + n]`)"""
    lin = linear(e)
    if lin is None:
        return None
    asg = assignments(fn)
    for _ in range(depth):
        changed = False
        out: dict[str, int] = {}
        for k, c in lin.items():
            vals = asg.get(k, []) if k else []
            sub = linear(vals[0]) if len(vals) == 1 else None
            if sub is not None and k not in sub and not (len(sub) == 1 and "" in sub and False):
                for k2, c2 in sub.items():
                    out[k2] = out.get(k2, 0) + c * c2
                changed = True
            else:
                out[k] = out.get(k, 0) + c
        lin = {k: v for k, v in out.items() if v != 0 or k == ""}
        if not changed:
            break
    return lin


def cmp_canon(fn: FunctionInfo | None, test: ast.AST, resolve: bool = False) -> tuple[dict[str, int], str] | None:
    """`a OP b` (possibly under `not`, possibly mirrored) as (linear form of a - b, op) with op in '>', '>=', '==', '!='; a `<` / `<=`
    comparison is stored with the opposite sign.  None if the operands are not linear."""
    t, neg = strip_not(test)
    if not (isinstance(t, ast.Compare) and len(t.ops) == 1 and type(t.ops[0]) in _FLIP):
        return None
    op = type(t.ops[0])
    if neg:
        op = _NEG[op]
    f = (lambda x: lin_resolved(fn, x)) if (resolve and fn is not None) else linear
    a, b = f(t.left), f(t.comparators[0])
    if a is None or b is None:
        return None
    d = dict(a)
    for k, v in b.items():
        d[k] = d.get(k, 0) - v
    if op in (ast.Lt, ast.LtE):
        d = {k: -v for k, v in d.items()}
        op = _FLIP[op]
    d = {k: v for k, v in d.items() if v != 0}
    return d, {ast.Gt: ">", ast.GtE: ">=", ast.Eq: "==", ast.NotEq: "!="}[op]


def found_test(test: ast.AST, var: str) -> bool | None:
    """does `test` being true mean that a search result `var` is a hit (`!= -1`, `>= 0`, `> -1`, mirrored, negated)?  True / False (it means
    a miss) / None (not such a test)"""
    c = cmp_canon(None, test)
    if c is None:
        return None
    d, op = c
    if set(d) - {""} != {var}:
        return None
    k, const = d[var], d.get("", 0)
    # k*var + const OP 0
    if op == "!=" and k * -1 + const == 0:
        return True
    if op == "==" and k * -1 + const == 0:
        return False
    if op == ">=" and k == 1 and const == 0:
        return True   # var >= 0
    if op == ">" and k == 1 and const == 1:
        return True   # var > -1
    if op == ">" and k == -1 and const == 0:
        return False  # var < 0
    if op == ">=" and k == -1 and const == -1:
        return False  # var <= -1
    return None


def private_helper(fn: FunctionInfo, call: ast.Call) -> FunctionInfo | None:
    """the same-class (`self._x()`) or same-module (`_x()`) private function that `call` runs"""
    f = call.func
    g = None
    if isinstance(f, ast.Attribute) and isinstance(f.value, ast.Name) and fn.self_name is not None and f.value.id == fn.self_name and f.attr.startswith("_") and not f.attr.endswith("__") \
            and fn.cls is not None:
        g = fn.cls.methods.get(f.attr)
    elif isinstance(f, ast.Attribute) and isinstance(f.value, ast.Name) and fn.cls is not None and f.value.id in (fn.cls.name, "cls") and f.attr.startswith("_"):
        g = fn.cls.methods.get(f.attr)
    elif isinstance(f, ast.Name) and f.id.startswith("_") and f.id in fn.module.functions:
        g = fn.module.functions[f.id]
    if g is None or isinstance(g.node, ast.Lambda) or g is fn:
        return None
    return g


def nodes_inl(fn: FunctionInfo, depth: int = 2, _seen: set | None = None) -> Iterator[tuple[ast.AST, FunctionInfo]]:
    """(node, owning function) for the nodes of fn and of the private helpers it calls (transitively up to depth): a rule that asks
    'does this function do X' gets the same answer after X was extracted into a helper"""
    seen = _seen if _seen is not None else {fn.qualname}
    for n in own_nodes(fn.node):
        yield n, fn
        if depth > 0 and isinstance(n, ast.Call):
            g = private_helper(fn, n)
            if g is not None and g.qualname not in seen:
                seen.add(g.qualname)
                yield from nodes_inl(g, depth - 1, seen)


def helper_return_expr(fn: FunctionInfo, call: ast.Call) -> tuple[ast.AST, FunctionInfo] | None:
    """if `call` runs a private helper whose body is a single `return <expr>` (or `tmp = <expr>; return tmp`), that expression (as written in the helper)"""
    g = private_helper(fn, call)
    if g is None:
        return None
    body = [st for st in g.node.body if not (isinstance(st, ast.Expr) and isinstance(st.value, ast.Constant))]
    if len(body) == 1 and isinstance(body[0], ast.Return) and body[0].value is not None:
        return body[0].value, g
    # `tmp = <expr>; return tmp`
    if len(body) == 2 and isinstance(body[1], ast.Return) and isinstance(body[1].value, ast.Name) and isinstance(body[0], (ast.Assign, ast.AnnAssign)) and body[0].value is not None:
        tg = body[0].targets if isinstance(body[0], ast.Assign) else [body[0].target]
        if len(tg) == 1 and isinstance(tg[0], ast.Name) and tg[0].id == body[1].value.id:
            return body[0].value, g
    return None


# ---------------------------------------------------------------------------------------------------------------------------------
def _chain_arms(iff: ast.If):
    """[(test | None, body)] of an if / elif / else chain"""
    arms = []
    cur = iff
    while True:
        arms.append((cur.test, cur.body))
        if len(cur.orelse) == 1 and isinstance(cur.orelse[0], ast.If):
            cur = cur.orelse[0]
            continue
        if cur.orelse:
            arms.append((None, cur.orelse))
        return arms


def _value_test(t: ast.AST):
    """`S == C`, `S == C1 or S == C2`, `S in (C1, C2)` -> (subject source, [constant nodes]); else None"""
    if isinstance(t, ast.Compare) and len(t.ops) == 1 and isinstance(t.ops[0], ast.Eq) and isinstance(t.comparators[0], ast.Constant) and isinstance(t.left, (ast.Name, ast.Attribute)):
        return ast.unparse(t.left), [t.comparators[0]]
    if isinstance(t, ast.Compare) and len(t.ops) == 1 and isinstance(t.ops[0], ast.In) and isinstance(t.comparators[0], (ast.Tuple, ast.List, ast.Set)) \
            and all(isinstance(e, ast.Constant) for e in t.comparators[0].elts) and isinstance(t.left, (ast.Name, ast.Attribute)):
        return ast.unparse(t.left), list(t.comparators[0].elts)
    if isinstance(t, ast.BoolOp) and isinstance(t.op, ast.Or):
        parts = [_value_test(v) for v in t.values]
        if all(p is not None for p in parts) and len({p[0] for p in parts}) == 1:
            return parts[0][0], [c for p in parts for c in p[1]]
    return None


def match_views(fn_node: ast.AST, own=None) -> list[ast.Match]:
    """The `match` statements of a function *plus* one synthesised `ast.Match` for every if / elif chain that dispatches on the value
    of one subject (`S == C [and guard]`, `S == C1 or S == C2`, `S in (...)`, a bare guard -> `case _ if guard`, `else` -> `case _`):
    a rule written against the `match` form reads the equivalent chain the same way.  Synthesised nodes carry the line of the `if`."""
    from .db import own_nodes
    nodes = list(own(fn_node) if own is not None else own_nodes(fn_node))
    out = [n for n in nodes if isinstance(n, ast.Match)]
    elifs = {id(n.orelse[0]) for n in nodes if isinstance(n, ast.If) and len(n.orelse) == 1 and isinstance(n.orelse[0], ast.If)}
    for iff in [n for n in nodes if isinstance(n, ast.If) and id(n) not in elifs]:
        arms = _chain_arms(iff)
        cases = []
        subjects = set()
        for test, body in arms:
            if test is None:
                cases.append(ast.match_case(pattern=ast.MatchAs(pattern=None, name=None), guard=None, body=body))
                continue
            vt, guard = _value_test(test), None
            if vt is None and isinstance(test, ast.BoolOp) and isinstance(test.op, ast.And):
                vt = _value_test(test.values[0])
                if vt is not None:
                    rest = test.values[1:]
                    guard = rest[0] if len(rest) == 1 else ast.BoolOp(op=ast.And(), values=rest)
            if vt is None:
                cases.append(ast.match_case(pattern=ast.MatchAs(pattern=None, name=None), guard=test, body=body))
                continue
            subjects.add(vt[0])
            pats = [ast.MatchValue(value=c) for c in vt[1]]
            cases.append(ast.match_case(pattern=pats[0] if len(pats) == 1 else ast.MatchOr(patterns=pats), guard=guard, body=body))
        if len(subjects) == 1 and sum(1 for c in cases if not isinstance(c.pattern, ast.MatchAs)) >= 2:
            m = ast.Match(subject=ast.parse(next(iter(subjects)), mode="eval").body, cases=cases)
            ast.copy_location(m, iff)
            ast.fix_missing_locations(m)
            out.append(m)
    return out


# ---------------------------------------------------------------------------------------------------------------------------------
def _errnos_in(e: ast.AST | None) -> set[str]:
    return {x.attr for x in ast.walk(e) if isinstance(x, ast.Attribute) and x.attr.startswith("E") and x.attr.isupper() and len(x.attr) > 2} if e is not None else set()


def raised_errnos(fn: FunctionInfo, raise_node: ast.Raise, truth: dict[str, bool] | None = None) -> set[str]:
    """errno constants of the error a `raise` statement can raise: written in the statement, or - for `raise helper(args)` with a private
    helper that *returns* the error - the constants on the helper's return paths.  `truth` maps the source text of argument expressions
    to a known truth value (`{"self._eof_reached": True}`): tests of the corresponding parameter inside the helper are decided."""
    direct = _errnos_in(raise_node)
    exc = getattr(raise_node, "exc", None)
    if direct or not isinstance(exc, ast.Call):
        return direct
    g = private_helper(fn, exc)
    if g is None or isinstance(g.node, ast.Lambda):
        return set()
    params = [a.arg for a in g.node.args.posonlyargs + g.node.args.args]
    if g.cls is not None and params and not g.has_decorator("staticmethod"):
        params = params[1:]
    known: dict[str, bool] = {}
    for i, a in enumerate(exc.args):
        if i < len(params) and truth and ast.unparse(a) in truth:
            known[params[i]] = truth[ast.unparse(a)]
    for k in exc.keywords:
        if k.arg and truth and ast.unparse(k.value) in truth:
            known[k.arg] = truth[ast.unparse(k.value)]

    def test(t) -> bool | None:
        neg = False
        while isinstance(t, ast.UnaryOp) and isinstance(t.op, ast.Not):
            neg, t = not neg, t.operand
        if isinstance(t, ast.Name) and t.id in known:
            return known[t.id] != neg
        return None

    out: set[str] = set()

    def walk(stmts) -> bool:
        """collect the errnos of reachable returns; True if the block can fall through"""
        for st in stmts:
            if isinstance(st, ast.Return):
                out.update(_errnos_in(st.value))
                return False
            if isinstance(st, ast.Raise):
                out.update(_errnos_in(st))
                return False
            if isinstance(st, ast.If):
                r = test(st.test)
                ft = walk(st.body) if r is not False else True
                ff = walk(st.orelse) if r is not True else True
                if r is True and not ft:
                    return False
                if r is False and not ff:
                    return False
                if r is None and not ft and not ff:
                    return False
            elif isinstance(st, (ast.With, ast.Try)):
                if not walk(st.body):
                    return False
        return True

    walk(g.node.body)
    return out


def through_identity_helper(fn: FunctionInfo, e: ast.AST | None) -> ast.AST | None:
    """`_check(x)` -> `x` when the private helper returns its own parameter unchanged on every return path (a validating pass-through:
    `if x < 0: raise ...; return x`); any other expression is returned as is"""
    hops = 0
    while isinstance(e, ast.Call) and hops < 3:
        g = private_helper(fn, e)
        if g is None:
            return e
        params = [a.arg for a in g.node.args.posonlyargs + g.node.args.args]
        if g.cls is not None and params and not g.has_decorator("staticmethod"):
            params = params[1:]
        rets = [r for r in own_nodes(g.node) if isinstance(r, ast.Return)]
        names = {r.value.id for r in rets if isinstance(r.value, ast.Name)}
        if not rets or len(names) != 1 or any(not isinstance(r.value, ast.Name) for r in rets):
            return e
        p = next(iter(names))
        if p not in params or any(isinstance(t, ast.Name) and t.id == p and isinstance(t.ctx, ast.Store) for t in own_nodes(g.node)):
            return e
        i = params.index(p)
        arg = e.args[i] if i < len(e.args) else next((k.value for k in e.keywords if k.arg == p), None)
        if arg is None:
            return e
        e, hops = arg, hops + 1
    return e


# ---------------------------------------------------------------------------------------------------------------------------------
class Arm:
    """one (virtual) exception arm: the classes it is for, its statements, the real handler it belongs to"""
    __slots__ = ("type", "body", "handler", "lineno")

    def __init__(self, type_, body, handler):
        self.type, self.body, self.handler = type_, body, handler
        self.lineno = body[0].lineno if body else handler.lineno


def handler_arms(try_node: ast.Try) -> list[Arm]:
    """The except arms of a try statement, with `except E as exc:` whose body is one if / elif isinstance(exc, A) ... chain split
    into one virtual arm per isinstance test (typed A, B, ...) plus the `else` arm (typed E): three handlers merged into a
    dispatching one read like the three handlers."""
    out: list[Arm] = []
    for h in try_node.handlers:
        body = [s for s in h.body if not (isinstance(s, ast.Expr) and isinstance(s.value, ast.Constant))]
        if h.name and len(body) == 1 and isinstance(body[0], ast.If):
            arms = _chain_arms(body[0])
            virt = []
            ok = True
            for test, blk in arms:
                if test is None:
                    virt.append(Arm(h.type, blk, h))
                elif isinstance(test, ast.Call) and isinstance(test.func, ast.Name) and test.func.id == "isinstance" and len(test.args) == 2 \
                        and isinstance(test.args[0], ast.Name) and test.args[0].id == h.name:
                    virt.append(Arm(test.args[1], blk, h))
                else:
                    ok = False
            if ok and len(virt) >= 2:
                if all(t is not None for t, _ in arms):
                    # no else: the remaining instances of E leave the chain untouched (fall through = swallowed)
                    virt.append(Arm(h.type, [], h))
                out += virt
                continue
        out.append(Arm(h.type, h.body, h))
    return out


def record_fields(fn: FunctionInfo, cls_name: str) -> list[str] | None:
    """field names of a `typing.NamedTuple` subclass declared in `fn`'s module (annotation order), else None"""
    mod = getattr(fn, "module", None)
    tree = getattr(mod, "tree", None) if mod is not None else None
    if tree is None:
        return None
    for n in tree.body:
        if isinstance(n, ast.ClassDef) and n.name == cls_name and any((dotted(b) or "").split(".")[-1] == "NamedTuple" for b in n.bases):
            return [s.target.id for s in n.body if isinstance(s, ast.AnnAssign) and isinstance(s.target, ast.Name)]
    return None


def tuple_elts(fn: FunctionInfo, e: ast.AST | None) -> list[ast.AST]:
    """the element expressions of a returned record: `(a, b, c)` and `_Record(a, b, c)` / `_Record(x=a, y=b, z=c)` (a NamedTuple
    of the same module, in field order) read the same; any other expression is a one-element record"""
    if isinstance(e, ast.Tuple):
        return list(e.elts)
    if isinstance(e, ast.Call) and isinstance(e.func, ast.Name):
        cname = e.func.id
        if cname == "cls" and fn.cls is not None and fn.has_decorator("classmethod"):
            cname = fn.cls.name  # `return cls(x=a, y=b)` in a classmethod of the record class
        fields = record_fields(fn, cname)
        if fields is not None and not any(isinstance(a, ast.Starred) for a in e.args) and all(k.arg in fields for k in e.keywords):
            out: list[ast.AST | None] = [None] * len(fields)
            for i, a in enumerate(e.args[: len(fields)]):
                out[i] = a
            for k in e.keywords:
                out[fields.index(k.arg)] = k.value
            if all(x is not None for x in out):
                return out  # type: ignore[return-value]
    return [e] if e is not None else []


def always_leaves(block: list[ast.stmt]) -> bool:
    """does every path through `block` end in continue / break / return / raise (a try statement leaves when its body - or its else
    clause - and every handler do; a `finally` that leaves does too)?"""
    if not block:
        return False
    last = block[-1]
    if isinstance(last, (ast.Continue, ast.Break, ast.Return, ast.Raise)):
        return True
    if isinstance(last, ast.Try):
        if last.finalbody and always_leaves(last.finalbody):
            return True
        main = always_leaves(last.orelse) if last.orelse else always_leaves(last.body)
        return main and all(always_leaves(h.body) for h in last.handlers)
    if isinstance(last, ast.If):
        return bool(last.orelse) and always_leaves(last.body) and always_leaves(last.orelse)
    if isinstance(last, (ast.With, ast.AsyncWith)):
        return always_leaves(last.body)
    return False


def if_arms(root: ast.AST, iff: ast.If) -> tuple[list[ast.stmt], list[ast.stmt]]:
    """(then-arm, else-arm) of `iff`, reading a guard clause as an if/else: when the then-arm always leaves (continue / break /
    return / raise) and there is no else, the statements that follow the `if` in its block are the else-arm."""
    if iff.orelse or not iff.body or not always_leaves(iff.body):
        return list(iff.body), list(iff.orelse)
    for n in ast.walk(root):
        for fld in ("body", "orelse", "finalbody"):
            blk = getattr(n, fld, None)
            if isinstance(blk, list) and iff in blk:
                return list(iff.body), list(blk[blk.index(iff) + 1:])
    return list(iff.body), []


def const_value(fn: FunctionInfo, e: ast.AST | None):
    """the literal behind `e`: a constant, a single-assignment local bound to one, or a module-level name bound once to one
    (`_HIGH_WATER: Final[int] = 0`); `...` (Ellipsis) when it is none of those"""
    for _ in range(3):
        if isinstance(e, ast.Constant):
            return e.value
        if isinstance(e, ast.Name):
            vals = assignments(fn).get(e.id, []) if not isinstance(fn.node, ast.Lambda) else []
            if len(vals) == 1:
                e = vals[0]
                continue
            if not vals and e.id in fn.module.assigns:
                # bound once at module level (no other store to the name anywhere in the module)
                stores = sum(1 for n in ast.walk(fn.module.tree) if isinstance(n, ast.Name) and n.id == e.id and isinstance(n.ctx, (ast.Store, ast.Del)))
                if stores == 1:
                    e = fn.module.assigns[e.id]
                    continue
        break
    return ...


def referenced_only_from(ci, name: str, allowed: set[str], _seen: set[str] | None = None) -> bool:
    """is the private method `name` of class `ci` referenced (called, or handed on as a bound method / inside a lambda) only from
    methods in `allowed` - directly or through other private methods that are themselves referenced only from there?"""
    seen = _seen if _seen is not None else set()
    if name in allowed:
        return True
    if name in seen or not name.startswith("_") or name.endswith("__"):
        return False
    seen.add(name)
    users = set()
    for m in ci.methods.values():
        if isinstance(m.node, ast.Lambda) or m.name == name or m.self_name is None:
            continue
        for x in ast.walk(m.node):
            if isinstance(x, ast.Attribute) and x.attr == name and isinstance(x.value, ast.Name) and x.value.id in (m.self_name, "cls"):
                users.add(m.name)
    return bool(users) and all(referenced_only_from(ci, u, allowed, seen) for u in users)


def tail_delegate(fn: FunctionInfo, depth: int = 2) -> FunctionInfo:
    """the function that holds the loop: when `fn` has no loop of its own and ends in `return [await] self._helper(<namesake
    arguments>)` (a long function split in two), the private helper - else `fn` itself"""
    for _ in range(depth):
        if isinstance(fn.node, ast.Lambda) or any(isinstance(x, (ast.While, ast.For, ast.AsyncFor)) for x in own_nodes(fn.node)):
            return fn
        last = fn.node.body[-1] if fn.node.body else None
        v = last.value if isinstance(last, ast.Return) else None
        if isinstance(v, ast.Await):
            v = v.value
        if not isinstance(v, ast.Call):
            return fn
        g = private_helper(fn, v)
        if g is None or isinstance(g.node, ast.Lambda):
            return fn
        ps = [a.arg for a in g.params()]
        if g.cls is not None and ps and not g.has_decorator("staticmethod"):
            ps = ps[1:]
        if v.keywords or not all(isinstance(a, ast.Name) and i < len(ps) and a.id == ps[i] for i, a in enumerate(v.args)):
            return fn
        fn = g
    return fn
