"""Normal forms that make shape rules indifferent to how a maintainer happens to write the same thing:
mirrored / negated comparisons, locals introduced or inlined, private helpers extracted (DESIGN 10.8)."""
from __future__ import annotations

import ast
from typing import Iterator

from .analyses.buffers import assignments, linear
from .db import FunctionInfo, dotted, own_nodes

_FLIP = {ast.Lt: ast.Gt, ast.LtE: ast.GtE, ast.Gt: ast.Lt, ast.GtE: ast.LtE, ast.Eq: ast.Eq, ast.NotEq: ast.NotEq}
_NEG = {ast.Lt: ast.GtE, ast.LtE: ast.Gt, ast.Gt: ast.LtE, ast.GtE: ast.Lt, ast.Eq: ast.NotEq, ast.NotEq: ast.Eq, ast.Is: ast.IsNot, ast.IsNot: ast.Is, ast.In: ast.NotIn, ast.NotIn: ast.In}


def strip_not(test: ast.AST) -> tuple[ast.AST, bool]:
    neg = False
    while isinstance(test, ast.UnaryOp) and isinstance(test.op, ast.Not):
        test, neg = test.operand, not neg
    return test, neg


def lin_resolved(fn: FunctionInfo, e: ast.AST, depth: int = 4) -> dict[str, int] | None:
    """linear form of e with single-assignment locals replaced by their own linear definitions (so `end = idx + n; x[:end]` reads like
    `x[:idx + n]`)"""
    lin = linear(e)
    if lin is None:
        return None
    asg = assignments(fn)
    for _ in range(depth):
        changed = False
        out: dict[str, int] = {}
        for k, c in lin.items():
            vals = asg.get(k, []) if k else []
            sub = linear(vals[0]) if len(vals) == 1 else None
            if sub is not None and k not in sub and not (len(sub) == 1 and "" in sub and False):
                for k2, c2 in sub.items():
                    out[k2] = out.get(k2, 0) + c * c2
                changed = True
            else:
                out[k] = out.get(k, 0) + c
        lin = {k: v for k, v in out.items() if v != 0 or k == ""}
        if not changed:
            break
    return lin


def cmp_canon(fn: FunctionInfo | None, test: ast.AST, resolve: bool = False) -> tuple[dict[str, int], str] | None:
    """`a OP b` (possibly under `not`, possibly mirrored) as (linear form of a - b, op) with op in '>', '>=', '==', '!='; a `<` / `<=`
    comparison is stored with the opposite sign.  None if the operands are not linear."""
    t, neg = strip_not(test)
    if not (isinstance(t, ast.Compare) and len(t.ops) == 1 and type(t.ops[0]) in _FLIP):
        return None
    op = type(t.ops[0])
    if neg:
        op = _NEG[op]
    f = (lambda x: lin_resolved(fn, x)) if (resolve and fn is not None) else linear
    a, b = f(t.left), f(t.comparators[0])
    if a is None or b is None:
        return None
    d = dict(a)
    for k, v in b.items():
        d[k] = d.get(k, 0) - v
    if op in (ast.Lt, ast.LtE):
        d = {k: -v for k, v in d.items()}
        op = _FLIP[op]
    d = {k: v for k, v in d.items() if v != 0}
    return d, {ast.Gt: ">", ast.GtE: ">=", ast.Eq: "==", ast.NotEq: "!="}[op]


def found_test(test: ast.AST, var: str) -> bool | None:
    """does `test` being true mean that a search result `var` is a hit (`!= -1`, `>= 0`, `> -1`, mirrored, negated)?  True / False (it means
    a miss) / None (not such a test)"""
    c = cmp_canon(None, test)
    if c is None:
        return None
    d, op = c
    if set(d) - {""} != {var}:
        return None
    k, const = d[var], d.get("", 0)
    # k*var + const OP 0
    if op == "!=" and k * -1 + const == 0:
        return True
    if op == "==" and k * -1 + const == 0:
        return False
    if op == ">=" and k == 1 and const == 0:
        return True   # var >= 0
    if op == ">" and k == 1 and const == 1:
        return True   # var > -1
    if op == ">" and k == -1 and const == 0:
        return False  # var < 0
    if op == ">=" and k == -1 and const == -1:
        return False  # var <= -1
    return None


def private_helper(fn: FunctionInfo, call: ast.Call) -> FunctionInfo | None:
    """the same-class (`self._x()`) or same-module (`_x()`) private function that `call` runs"""
    f = call.func
    g = None
    if isinstance(f, ast.Attribute) and isinstance(f.value, ast.Name) and fn.self_name is not None and f.value.id == fn.self_name and f.attr.startswith("_") and not f.attr.endswith("__") \
            and fn.cls is not None:
        g = fn.cls.methods.get(f.attr)
    elif isinstance(f, ast.Attribute) and isinstance(f.value, ast.Name) and fn.cls is not None and f.value.id in (fn.cls.name, "cls") and f.attr.startswith("_"):
        g = fn.cls.methods.get(f.attr)
    elif isinstance(f, ast.Name) and f.id.startswith("_") and f.id in fn.module.functions:
        g = fn.module.functions[f.id]
    if g is None or isinstance(g.node, ast.Lambda) or g is fn:
        return None
    return g


def nodes_inl(fn: FunctionInfo, depth: int = 2, _seen: set | None = None) -> Iterator[tuple[ast.AST, FunctionInfo]]:
    """(node, owning function) for the nodes of fn and of the private helpers it calls (transitively up to depth): a rule that asks
    'does this function do X' gets the same answer after X was extracted into a helper"""
    seen = _seen if _seen is not None else {fn.qualname}
    for n in own_nodes(fn.node):
        yield n, fn
        if depth > 0 and isinstance(n, ast.Call):
            g = private_helper(fn, n)
            if g is not None and g.qualname not in seen:
                seen.add(g.qualname)
                yield from nodes_inl(g, depth - 1, seen)


def helper_return_expr(fn: FunctionInfo, call: ast.Call) -> tuple[ast.AST, FunctionInfo] | None:
    """if `call` runs a private helper whose body is a single `return <expr>` (or `tmp = <expr>; return tmp`), that expression (as written in the helper)"""
    g = private_helper(fn, call)
    if g is None:
        return None
    body = [st for st in g.node.body if not (isinstance(st, ast.Expr) and isinstance(st.value, ast.Constant))]
    if len(body) == 1 and isinstance(body[0], ast.Return) and body[0].value is not None:
        return body[0].value, g
    # `tmp = <expr>; return tmp`
    if len(body) == 2 and isinstance(body[1], ast.Return) and isinstance(body[1].value, ast.Name) and isinstance(body[0], (ast.Assign, ast.AnnAssign)) and body[0].value is not None:
        tg = body[0].targets if isinstance(body[0], ast.Assign) else [body[0].target]
        if len(tg) == 1 and isinstance(tg[0], ast.Name) and tg[0].id == body[1].value.id:
            return body[0].value, g
    return None
