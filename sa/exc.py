"""Exception class lattice: decides whether `except E` must / may / cannot catch an abstract exception token.

A *token* is a canonical class name.  Token T stands for "an instance of T (or of a subclass of T that no
more specific token of the analysis' universe represents)".  Ancestry comes from introspection of the
standard library (builtins, ssl, asyncio, json, struct, zlib, binascii, ... - never from easynetwork, which
is not imported) and from the repository's own exception classes read from the AST.
"""
from __future__ import annotations

import ast
import builtins
import importlib
from typing import Iterable

from .db import DB, ClassInfo, FunctionInfo, Module, dotted

CANCELLED = "asyncio.exceptions.CancelledError"
ALIASES = {
    "Cancelled": CANCELLED,
    "asyncio.CancelledError": CANCELLED,
    "concurrent.futures.CancelledError": "concurrent.futures._base.CancelledError",
    "trio.Cancelled": CANCELLED,  # the trio backend's cancellation class plays the same role
    "socket.error": "OSError",
    "socket.timeout": "TimeoutError",
    "IOError": "OSError",
    "EnvironmentError": "OSError",
    "ssl.SSLError": "ssl.SSLError",
}

_SAFE_MODULES = {
    "ssl", "asyncio", "json", "struct", "zlib", "bz2", "binascii", "pickle", "socket", "concurrent.futures", "errno",
    "selectors", "threading", "queue", "contextlib", "collections", "io", "base64", "hmac", "asyncio.exceptions",
    "concurrent.futures._base", "json.decoder", "_pickle", "builtins", "exceptiongroup",
}

# documented ancestry of classes from libraries that are NOT installed here (frozen, see DESIGN section 6.8)
INT_DIGITS = "ValueError[int-max-str-digits]"
CODEC_ERROR = "UnicodeError[codec]"
_FROZEN = {
    # synthetic leaf: the *input-dependent* plain ValueError of CPython >= 3.11's integer string conversion limit, kept apart from
    # the ValueError of argument validation (configuration-dependent); `except ValueError` catches it, `except JSONDecodeError` does not
    INT_DIGITS: [INT_DIGITS, "ValueError", "Exception", "BaseException"],
    # synthetic leaf: the plain UnicodeError (not a UnicodeDecodeError) that some codecs raise on malformed input - "idna"
    # (`str(b"xn--a-", "idna")`), "punycode", user-registered codecs: `except UnicodeError` catches it, `except UnicodeDecodeError` does not
    CODEC_ERROR: [CODEC_ERROR, "UnicodeError", "ValueError", "Exception", "BaseException"],
    "trio.BrokenResourceError": ["trio.BrokenResourceError", "Exception", "BaseException"],
    "trio.ClosedResourceError": ["trio.ClosedResourceError", "Exception", "BaseException"],
    "trio.BusyResourceError": ["trio.BusyResourceError", "Exception", "BaseException"],
    "trio.WouldBlock": ["trio.WouldBlock", "Exception", "BaseException"],
    "trio.EndOfChannel": ["trio.EndOfChannel", "Exception", "BaseException"],
    "trio.TooSlowError": ["trio.TooSlowError", "Exception", "BaseException"],
    "cbor2.CBORDecodeError": ["cbor2.CBORDecodeError", "Exception", "BaseException"],
    "cbor2.CBORDecodeEOF": ["cbor2.CBORDecodeEOF", "cbor2.CBORDecodeError", "EOFError", "Exception", "BaseException"],
    "cbor2.CBOREncodeError": ["cbor2.CBOREncodeError", "Exception", "BaseException"],
    "msgpack.UnpackException": ["msgpack.UnpackException", "Exception", "BaseException"],
    "msgpack.OutOfData": ["msgpack.OutOfData", "msgpack.UnpackException", "Exception", "BaseException"],
    "msgpack.ExtraData": ["msgpack.ExtraData", "ValueError", "Exception", "BaseException"],
    "msgpack.exceptions.OutOfData": ["msgpack.OutOfData", "msgpack.UnpackException", "Exception", "BaseException"],
    "msgpack.exceptions.ExtraData": ["msgpack.ExtraData", "ValueError", "Exception", "BaseException"],
}


def _cname(cls: type) -> str:
    if cls.__module__ == "builtins":
        return cls.__qualname__
    return f"{cls.__module__}.{cls.__qualname__}"


class Lattice:
    def __init__(self, db: DB) -> None:
        self.db = db
        self._anc: dict[str, list[str] | None] = {}

    # ---------------------------------------------------------------- ancestry
    def canonical(self, name: str) -> str:
        name = ALIASES.get(name, name)
        a = self.ancestry(name)
        return a[0] if a else name

    def ancestry(self, name: str) -> list[str] | None:
        """[canonical(name), base, ..., 'BaseException'] or None if unknown."""
        name = ALIASES.get(name, name)
        if name in self._anc:
            return self._anc[name]
        res: list[str] | None = None
        if name in _FROZEN:
            res = list(_FROZEN[name])
        elif name in self.db.classes:
            res = self._repo_ancestry(self.db.classes[name])
        else:
            obj = self.db.lookup(name) if name.startswith("easynetwork") else None
            if isinstance(obj, ClassInfo):
                res = self._repo_ancestry(obj)
            else:
                cls = self._import_class(name)
                if cls is not None and isinstance(cls, type) and issubclass(cls, BaseException):
                    res = [_cname(c) for c in cls.__mro__ if c is not object]
        self._anc[name] = res
        return res

    def _import_class(self, name: str):
        if hasattr(builtins, name):
            return getattr(builtins, name)
        modname, _, attr = name.rpartition(".")
        if not modname or modname not in _SAFE_MODULES:
            return None
        try:
            mod = importlib.import_module(modname)
        except Exception:
            return None
        return getattr(mod, attr, None)

    def _repo_ancestry(self, ci: ClassInfo) -> list[str] | None:
        out = [ci.qualname]
        for c in ci.mro()[1:]:
            out.append(c.qualname)
        for c in ci.mro():
            for e in c.external_bases:
                a = self.ancestry(e)
                if a:
                    for x in a:
                        if x not in out:
                            out.append(x)
        if "BaseException" not in out:
            return None
        # keep BaseException last, Exception before it
        for tail in ("Exception", "BaseException"):
            if tail in out:
                out.remove(tail)
                out.append(tail)
        return out

    def is_sub(self, a: str, b: str) -> bool:
        anc = self.ancestry(a)
        return anc is not None and self.canonical(b) in anc

    # ---------------------------------------------------------------- handlers
    def handler_classes(self, fn: FunctionInfo, type_expr: ast.AST | None, resolve_attr=None) -> list[str] | None:
        """Canonical class names named by an except clause's type expression.
        Returns ['BaseException'] for a bare except, None if some component cannot be resolved."""
        if type_expr is None:
            return ["BaseException"]
        if isinstance(type_expr, ast.Tuple):
            out: list[str] = []
            for e in type_expr.elts:
                r = self.handler_classes(fn, e, resolve_attr)
                if r is None:
                    return None
                out += r
            return out
        if isinstance(type_expr, ast.IfExp):
            # `X if module else ()` : assume the optional stdlib module (ssl) is present
            if isinstance(type_expr.orelse, ast.Tuple) and not type_expr.orelse.elts:
                return self.handler_classes(fn, type_expr.body, resolve_attr)
            return None
        if isinstance(type_expr, ast.Call):
            f = type_expr.func
            if isinstance(f, ast.Attribute) and f.attr == "get_cancelled_exc_class":
                return [CANCELLED]
            return None
        d = dotted(type_expr)
        if d is None:
            return None
        if resolve_attr is not None:
            r = resolve_attr(fn, type_expr)
            if r is not None:
                return r
        obj = self.db.resolve(fn.module, d, fn)
        if isinstance(obj, ClassInfo):
            a = self.ancestry(obj.qualname)
            return [a[0]] if a else None
        if isinstance(obj, ast.AST):
            # module-level alias / tuple of classes
            if isinstance(obj, (ast.Tuple, ast.Name, ast.Attribute)):
                return self.handler_classes_in_module(fn.module if d.split(".")[0] not in fn.module.imports else self._mod_of(fn.module, d), obj)
            return None
        ext = self.db.external_name(fn.module, d, fn)
        a = self.ancestry(ext)
        if a:
            return [a[0]]
        return None

    def _mod_of(self, m: Module, d: str) -> Module:
        tgt = m.imports.get(d.split(".")[0], "")
        while tgt and tgt not in self.db.modules:
            tgt = tgt.rpartition(".")[0]
        return self.db.modules.get(tgt, m)

    def instance_attrs(self, name: str) -> set[str] | None:
        """Attribute names every instance of exception class `name` has: class attributes / descriptors (dir) plus, for classes
        written in Python, attributes assigned to `self` in __init__ along the MRO (read from source, nothing is executed).
        None = unknown class."""
        import inspect
        name = ALIASES.get(name, name)
        if name in self.db.classes or (name.startswith("easynetwork") and isinstance(self.db.lookup(name), ClassInfo)):
            ci = self.db.classes.get(name) or self.db.lookup(name)
            out: set[str] = set(dir(Exception))
            for c in ci.mro():
                out |= set(c.methods) | set(c.fields) | set(c.field_values)
                init = c.methods.get("__init__")
                if init is not None:
                    for n in ast.walk(init.node):
                        if isinstance(n, ast.Attribute) and isinstance(n.ctx, ast.Store) and dotted(n.value) == init.self_name:
                            out.add(n.attr)
                for e in c.external_bases:
                    sub = self.instance_attrs(e)
                    if sub:
                        out |= sub
            return out
        cls = self._import_class(name)
        if cls is None or not isinstance(cls, type):
            return None
        out = set(dir(cls))
        for c in cls.__mro__:
            init = c.__dict__.get("__init__")
            if init is None or not hasattr(init, "__code__"):
                continue
            try:
                tree = ast.parse(inspect.cleandoc("\n" + inspect.getsource(init)) if False else __import__("textwrap").dedent(inspect.getsource(init)))
            except (OSError, TypeError, SyntaxError):
                continue
            fn = tree.body[0]
            selfn = fn.args.args[0].arg if fn.args.args else "self"
            for n in ast.walk(fn):
                if isinstance(n, ast.Attribute) and isinstance(n.ctx, ast.Store) and isinstance(n.value, ast.Name) and n.value.id == selfn:
                    out.add(n.attr)
        return out

    def dead_handlers(self, fn: FunctionInfo, try_node: ast.Try) -> list[tuple[ast.ExceptHandler, ast.ExceptHandler]]:
        """(arm, earlier arm that catches everything it names): Python picks the first matching arm, so the later one never runs."""
        out = []
        earlier: list[tuple[ast.ExceptHandler, list[str]]] = []
        for h in try_node.handlers:
            names = self.handler_classes(fn, h.type)
            if names:
                for e, en in earlier:
                    if all(any(self.is_sub(n, x) for x in en) for n in names):
                        out.append((h, e))
                        break
            if names:
                earlier.append((h, names))
        return out

    def handler_classes_in_module(self, m: Module, expr: ast.AST) -> list[str] | None:
        if isinstance(expr, ast.Tuple):
            out: list[str] = []
            for e in expr.elts:
                r = self.handler_classes_in_module(m, e)
                if r is None:
                    return None
                out += r
            return out
        d = dotted(expr)
        if d is None:
            return None
        obj = self.db.resolve(m, d)
        if isinstance(obj, ClassInfo):
            a = self.ancestry(obj.qualname)
            return [a[0]] if a else None
        a = self.ancestry(self.db.external_name(m, d))
        return [a[0]] if a else None

    def match(self, handler: list[str] | None, token: str, universe: Iterable[str] = ()) -> str:
        """'must' | 'may' | 'no' : does an except clause naming `handler` classes catch `token`?"""
        if handler is None:
            return "may"
        tanc = self.ancestry(token)
        if tanc is None:
            return "may"
        verdict = "no"
        for h in handler:
            if h in tanc:
                return "must"
            hanc = self.ancestry(h)
            if hanc is not None and tanc[0] in hanc:
                # handler names a subclass of the token: it may catch, unless a more specific token of the
                # universe lying between them represents those instances
                covered = any(u != tanc[0] and u in hanc and self.is_sub(u, tanc[0]) for u in universe)
                if not covered:
                    verdict = "may"
        return verdict

    def token_for(self, cls_name: str, universe: Iterable[str]) -> str | None:
        """Most specific token of `universe` that represents instances of `cls_name`."""
        anc = self.ancestry(cls_name)
        if anc is None:
            return None
        uni = [self.canonical(u) for u in universe]
        for a in anc:
            if a in uni:
                return a
        return None
