"""Interprocedural summaries over the resolved call graph (DESIGN.md section 2.4).

may_suspend(f)  : can `await f(...)` actually yield to the event loop?
may_cancel(f)   : can `await f(...)` raise the cancellation exception, i.e. does it contain a suspension point
                  that is not cancel-shielded?  (In a single-threaded loop a cancellation - like any other task -
                  can only intervene at a real suspension point.)
Both are least fixpoints over the (possibly recursive) call graph; an await whose callee cannot be resolved
is conservatively a suspension and a cancellation point.
"""
from __future__ import annotations

import ast
from dataclasses import dataclass
from typing import Any

from .db import ClassInfo, FunctionInfo, dotted, own_nodes

# awaited callees that never let a cancellation through to the awaiting frame (they may suspend)
SHIELD_NAMES = {"cancel_shielded_coro_yield", "ignore_cancellation", "cancel_shielded_await", "cancel_shielded_checkpoint"}
SHIELD_EXTERNAL: set[str] = set()  # NOT asyncio.shield: it protects the inner awaitable, the awaiting frame still sees CancelledError
# external awaitables that complete without yielding to the loop (none known to be used by the repo)
NEVER_SUSPEND_EXTERNAL: set[str] = set()
# repo awaitables that only *conditionally* yield but whose purpose is a checkpoint
CHECKPOINT_NAMES = {"coro_yield", "sleep", "sleep_forever", "checkpoint", "checkpoint_if_cancelled"}


@dataclass(eq=False)
class AwaitSite:
    kind: str  # 'await' | 'with_enter' | 'with_exit' | 'for'
    node: ast.AST  # Await / withitem / AsyncFor
    stmt: ast.AST | None
    call: ast.Call | None

    @property
    def lineno(self) -> int:
        n = self.node.context_expr if isinstance(self.node, ast.withitem) else self.node
        return getattr(n, "lineno", 0)


def is_abstract_body(fn: FunctionInfo) -> bool:
    """A body that is only a docstring / `...` / `pass` / `raise NotImplementedError`."""
    if isinstance(fn.node, ast.Lambda):
        return False
    for st in fn.node.body:
        if isinstance(st, ast.Expr) and isinstance(st.value, ast.Constant):
            continue
        if isinstance(st, ast.Pass):
            continue
        if isinstance(st, ast.Raise) and st.exc is not None and "NotImplementedError" in ast.unparse(st.exc):
            continue
        return False
    return True


class Summaries:
    def __init__(self, engine) -> None:
        self.engine = engine
        self.db = engine.db
        self.typer = engine.typer
        self._sites: dict[int, list[AwaitSite]] = {}
        self._suspend: dict[FunctionInfo, bool] | None = None
        self._cancel: dict[FunctionInfo, bool] | None = None
        self.unresolved_awaits: list[tuple[str, int, str]] = []

    # ------------------------------------------------------------------ sites
    def await_sites(self, fn: FunctionInfo) -> list[AwaitSite]:
        key = id(fn)
        if key in self._sites:
            return self._sites[key]
        out: list[AwaitSite] = []
        for n in own_nodes(fn.node):
            if isinstance(n, ast.Await):
                out.append(AwaitSite("await", n, None, n.value if isinstance(n.value, ast.Call) else None))
            elif isinstance(n, ast.AsyncWith):
                for it in n.items:
                    ce = it.context_expr
                    out.append(AwaitSite("with_enter", it, n, ce if isinstance(ce, ast.Call) else None))
                    out.append(AwaitSite("with_exit", it, n, ce if isinstance(ce, ast.Call) else None))
            elif isinstance(n, ast.AsyncFor):
                out.append(AwaitSite("for", n, n, n.iter if isinstance(n.iter, ast.Call) else None))
            elif isinstance(n, (ast.ListComp, ast.SetComp, ast.DictComp, ast.GeneratorExp)):
                for g in n.generators:
                    if g.is_async:
                        out.append(AwaitSite("for", g.iter, n, g.iter if isinstance(g.iter, ast.Call) else None))
        out.sort(key=lambda s: s.lineno)
        self._sites[key] = out
        return out

    def site_callees(self, fn: FunctionInfo, site: AwaitSite) -> tuple[list[FunctionInfo], list[str], bool]:
        """(repo callees, external callee names, resolved?) of an await site."""
        repo: list[FunctionInfo] = []
        ext: list[str] = []
        if site.kind == "await":
            if site.call is None:
                return [], [], False
            tg = self.typer.call_targets(fn, site.call)
            for t in tg:
                if isinstance(t, FunctionInfo):
                    repo.append(t)
                elif isinstance(t, str):
                    ext.append(t)
            return repo, ext, bool(tg)
        if site.kind in ("with_enter", "with_exit"):
            ce = site.node.context_expr
            meth = "__aenter__" if site.kind == "with_enter" else "__aexit__"
            # repo @asynccontextmanager function
            if isinstance(ce, ast.Call):
                tg = self.typer.call_targets(fn, ce)
                cms = [t for t in tg if isinstance(t, FunctionInfo) and t.has_decorator("asynccontextmanager")]
                if cms:
                    return cms, [], True
            ts = self.typer.expr_types(fn, ce)
            for t in ts:
                if t.kind == "repo":
                    for f in self.db.overrides(t.ref, meth):
                        repo.append(f)
                elif t.kind == "ext":
                    ext.append(f"{t.ref}.{meth}")
            return repo, ext, bool(repo or ext)
        return [], [], False

    # ------------------------------------------------------------------ fixpoints
    def _site_flag(self, fn: FunctionInfo, site: AwaitSite, table: dict[FunctionInfo, bool], cancel: bool) -> bool:
        name = None
        if site.call is not None:
            f = site.call.func
            name = f.attr if isinstance(f, ast.Attribute) else (f.id if isinstance(f, ast.Name) else None)
        if cancel and name in SHIELD_NAMES:
            return False
        repo, ext, resolved = self.site_callees(fn, site)
        if cancel and any(e in SHIELD_EXTERNAL for e in ext):
            return False
        if site.kind == "with_exit" and self._is_lock_expr(fn, site.node.context_expr):
            return False  # releasing a lock never suspends (asyncio.Lock / FairLock / trio locks: synchronous release)
        if not resolved:
            return True
        flag = False
        for e in ext:
            if e not in NEVER_SUSPEND_EXTERNAL:
                flag = True
        for g in repo:
            impls = [g]
            if is_abstract_body(g) or g.has_decorator("abstractmethod"):
                # abstract: the implementations decide; none found -> unknown -> conservative
                if g.cls is not None:
                    impls = [h for h in self.db.overrides(g.cls, g.name) if not is_abstract_body(h)]
                if not impls:
                    return True
            for h in impls:
                if not h.is_async and not h.has_decorator("asynccontextmanager"):
                    # a plain function returning an awaitable: unknown
                    flag = True
                elif table.get(h, False):
                    flag = True
        return flag

    def _is_lock_expr(self, fn: FunctionInfo, ce: ast.AST) -> bool:
        ts = self.typer.expr_types(fn, ce)
        names = {"ILock", "Lock", "FairLock", "FastFIFOLock", "ICondition", "Condition"}
        return bool(ts) and all((t.kind == "repo" and t.ref.name in names) or (t.kind == "ext" and str(t.ref).split(".")[-1] in names) for t in ts)

    def _fix(self, cancel: bool) -> dict[FunctionInfo, bool]:
        table: dict[FunctionInfo, bool] = {}
        fns = [f for f in self.db.all_functions() if f.is_async]
        changed = True
        rounds = 0
        while changed:
            changed = False
            rounds += 1
            for f in fns:
                if table.get(f, False):
                    continue
                for s in self.await_sites(f):
                    if self._site_flag(f, s, table, cancel):
                        table[f] = True
                        changed = True
                        break
            if rounds > 50:
                break
        return table

    def may_suspend(self, fn: FunctionInfo) -> bool:
        if self._suspend is None:
            self._suspend = self._fix(False)
        return self._suspend.get(fn, False)

    def may_cancel(self, fn: FunctionInfo) -> bool:
        if self._cancel is None:
            self._cancel = self._fix(True)
        return self._cancel.get(fn, False)

    def site_may_suspend(self, fn: FunctionInfo, site: AwaitSite) -> bool:
        if self._suspend is None:
            self._suspend = self._fix(False)
        return self._site_flag(fn, site, self._suspend, False)

    def site_may_cancel(self, fn: FunctionInfo, site: AwaitSite) -> bool:
        if self._cancel is None:
            self._cancel = self._fix(True)
        return self._site_flag(fn, site, self._cancel, True)

    # convenience for flow atoms ------------------------------------------------------------------
    def atom_site(self, fn: FunctionInfo, node: Any) -> AwaitSite | None:
        from .flow import ForIter, WithEnter, WithExit

        if isinstance(node, ast.Await):
            return AwaitSite("await", node, None, node.value if isinstance(node.value, ast.Call) else None)
        if isinstance(node, WithEnter) and node.is_async:
            ce = node.item.context_expr
            return AwaitSite("with_enter", node.item, node.stmt, ce if isinstance(ce, ast.Call) else None)
        if isinstance(node, WithExit) and node.is_async:
            ce = node.item.context_expr
            return AwaitSite("with_exit", node.item, node.stmt, ce if isinstance(ce, ast.Call) else None)
        if isinstance(node, ForIter) and node.is_async:
            return AwaitSite("for", node.stmt, node.stmt, node.stmt.iter if isinstance(node.stmt.iter, ast.Call) else None)
        return None

    def atom_may_cancel(self, fn: FunctionInfo, node: Any) -> bool:
        s = self.atom_site(fn, node)
        return s is not None and self.site_may_cancel(fn, s)

    def atom_may_suspend(self, fn: FunctionInfo, node: Any) -> bool:
        s = self.atom_site(fn, node)
        return s is not None and self.site_may_suspend(fn, s)
