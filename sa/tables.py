"""API tables: the trusted base shared by the rules (DESIGN.md section 6.3).  One line of reason per row."""
from __future__ import annotations

# External callables that cannot raise for the purposes of ownership / typestate rules (MemoryError,
# KeyboardInterrupt and interpreter failures are outside the exception universe, DESIGN 6.5).
CANNOT_RAISE = {
    "list.append", "list.clear", "list.extend", "list.pop", "list.copy",  # builtin containers
    "collections.deque.append", "collections.deque.appendleft", "collections.deque.clear", "collections.deque.extend",
    "set.add", "set.discard", "set.clear", "dict.get", "dict.clear", "dict.setdefault",
    "builtins.len", "builtins.isinstance", "builtins.issubclass", "builtins.id", "builtins.bool", "builtins.callable",
    "builtins.type", "builtins.hasattr",
    "builtins.OSError", "builtins.ExceptionGroup", "builtins.BaseExceptionGroup", "builtins.RuntimeError",
    "builtins.TypeError", "builtins.ValueError", "builtins.AssertionError",  # exception constructors
    "builtins.OSError.with_traceback", "BaseException.with_traceback",
    "contextlib.closing", "contextlib.ExitStack", "contextlib.AsyncExitStack", "contextlib.suppress",
    "contextlib.ExitStack.enter_context#closing",  # enter_context(closing(x)) only records x
    "contextlib.ExitStack.callback", "contextlib.AsyncExitStack.callback", "contextlib.AsyncExitStack.push_async_callback",
    "contextlib.ExitStack.pop_all", "contextlib.AsyncExitStack.pop_all",
    "threading.Event.set", "asyncio.Event.set", "threading.Event.is_set", "asyncio.Event.is_set",
    "typing.cast", "builtins.str.lower",
    "socket.socket.close",  # the release itself: an error out of close() still releases the descriptor
    "socket.socket.fileno",
    "time.perf_counter", "time.monotonic",
}

# method names that cannot raise whatever the (unresolved) receiver, used only where stated by a rule
CANNOT_RAISE_METHODS = {"is_closing", "is_closed", "is_set", "done", "cancelled", "fileno", "locked"}

# repo callables (by qualname suffix) that are known not to raise: simple predicates / setters
REPO_CANNOT_RAISE = {
    "lowlevel._lock:ForkSafeLock.__init__",
    "lowlevel.socket:SocketProxy.__init__",
    "lowlevel.api_async.backend.abc:IEvent.set",
    "lowlevel.api_async.backend.abc:IEvent.is_set",
    "lowlevel.api_async.backend.abc:CancelScope.cancel",
    "lowlevel.api_async.backend.abc:CancelScope.cancelled_caught",
    "lowlevel.api_async.backend.abc:CancelScope.cancel_called",
}
