"""Program database: every module/class/function of /repo/src/easynetwork, parsed with `ast`.

DESIGN.md section 2.1.  Fail-closed: a syntax error or a module count below the floor raises AnalysisError.
"""
from __future__ import annotations

import ast
import hashlib
import os
from dataclasses import dataclass, field
from typing import Iterator

REPO = os.environ.get("VERIF_REPO", "/repo")
PKG = "easynetwork"
MODULE_FLOOR = 95  # 102 modules on the pinned tree


class AnalysisError(Exception):
    """The analysis itself is broken (anchor vanished, parse error, floor not met): exit 2, never a VIOLATION."""


def mangle(cls_name: str | None, attr: str) -> str:
    if cls_name and attr.startswith("__") and not attr.endswith("__"):
        return "_" + cls_name.lstrip("_") + attr
    return attr


def dotted(expr: ast.AST) -> str | None:
    """`a.b.c` -> "a.b.c" for Name/Attribute chains, else None."""
    parts = []
    while isinstance(expr, ast.Attribute):
        parts.append(expr.attr)
        expr = expr.value
    if isinstance(expr, ast.Name):
        parts.append(expr.id)
        return ".".join(reversed(parts))
    return None


@dataclass(eq=False)
class FunctionInfo:
    name: str
    qualname: str  # "pkg.mod:Class.meth" / "pkg.mod:func" / "pkg.mod:func.<locals>.inner"
    module: "Module"
    node: ast.FunctionDef | ast.AsyncFunctionDef | ast.Lambda
    cls: "ClassInfo | None" = None  # class whose body (lexically) contains it, also for nested functions
    parent: "FunctionInfo | None" = None
    nested: dict[str, "FunctionInfo"] = field(default_factory=dict)
    decorators: list[str] = field(default_factory=list)

    @property
    def is_async(self) -> bool:
        return isinstance(self.node, ast.AsyncFunctionDef)

    @property
    def is_method(self) -> bool:
        return self.cls is not None and self.parent is None

    @property
    def is_generator(self) -> bool:
        return any(isinstance(n, (ast.Yield, ast.YieldFrom)) for n in own_nodes(self.node))

    @property
    def short(self) -> str:
        return self.qualname.split(":", 1)[1]

    @property
    def file(self) -> str:
        return self.module.relpath

    @property
    def lineno(self) -> int:
        return self.node.lineno

    def has_decorator(self, *names: str) -> bool:
        return any(d.split(".")[-1] in names for d in self.decorators)

    @property
    def self_name(self) -> str | None:
        """name of the first parameter of a method (or of the enclosing method for nested functions)."""
        f = self
        while f.parent is not None:
            f = f.parent
        if f.cls is None or isinstance(f.node, ast.Lambda):
            return None
        if f.has_decorator("staticmethod"):
            return None
        args = f.node.args.posonlyargs + f.node.args.args
        return args[0].arg if args else None

    def params(self) -> list[ast.arg]:
        a = self.node.args
        out = list(a.posonlyargs) + list(a.args)
        if a.vararg:
            out.append(a.vararg)
        out += list(a.kwonlyargs)
        if a.kwarg:
            out.append(a.kwarg)
        return out

    def __repr__(self) -> str:
        return f"<fn {self.qualname}>"


@dataclass(eq=False)
class ClassInfo:
    name: str
    qualname: str  # "pkg.mod.Class"
    module: "Module"
    node: ast.ClassDef
    methods: dict[str, FunctionInfo] = field(default_factory=dict)
    decorators: list[str] = field(default_factory=list)
    base_exprs: list[ast.expr] = field(default_factory=list)
    bases: list["ClassInfo"] = field(default_factory=list)  # resolved repo bases
    external_bases: list[str] = field(default_factory=list)  # dotted names of non-repo bases
    fields: dict[str, ast.expr] = field(default_factory=dict)  # mangled attr -> annotation expr
    field_values: dict[str, list[tuple[FunctionInfo | None, ast.AST]]] = field(default_factory=dict)  # mangled attr -> stores
    subclasses: list["ClassInfo"] = field(default_factory=list)
    _mro: list["ClassInfo"] | None = None

    def mro(self) -> list["ClassInfo"]:
        if self._mro is None:
            seqs = [b.mro() for b in self.bases] + [list(self.bases)]
            out: list[ClassInfo] = [self]
            seqs = [list(s) for s in seqs if s]
            while seqs:
                for s in seqs:
                    cand = s[0]
                    if not any(cand in t[1:] for t in seqs):
                        break
                else:  # inconsistent: fall back to DFS order
                    cand = seqs[0][0]
                out.append(cand)
                for s in seqs:
                    if s and s[0] is cand:
                        del s[0]
                seqs = [s for s in seqs if s]
            self._mro = out
        return self._mro

    def find_method(self, name: str) -> FunctionInfo | None:
        for c in self.mro():
            if name in c.methods:
                return c.methods[name]
        return None

    def find_field(self, mangled: str) -> ast.expr | None:
        for c in self.mro():
            if mangled in c.fields:
                return c.fields[mangled]
        return None

    def is_subclass_of(self, other: "ClassInfo | str") -> bool:
        if isinstance(other, str):
            return any(c.qualname == other or c.name == other for c in self.mro()) or any(
                other == e or other == e.split(".")[-1] for c in self.mro() for e in c.external_bases
            )
        return other in self.mro()

    def all_subclasses(self) -> list["ClassInfo"]:
        out: list[ClassInfo] = []
        todo = list(self.subclasses)
        while todo:
            c = todo.pop()
            if c not in out:
                out.append(c)
                todo += c.subclasses
        return out

    def has_decorator(self, *names: str) -> bool:
        return any(d.split(".")[-1] in names for d in self.decorators)

    def __repr__(self) -> str:
        return f"<class {self.qualname}>"


@dataclass(eq=False)
class Module:
    name: str
    path: str
    relpath: str
    tree: ast.Module
    source: str
    imports: dict[str, str] = field(default_factory=dict)  # local name -> dotted target
    star_imports: list[str] = field(default_factory=list)
    functions: dict[str, FunctionInfo] = field(default_factory=dict)
    classes: dict[str, ClassInfo] = field(default_factory=dict)
    assigns: dict[str, ast.expr] = field(default_factory=dict)  # module-level NAME = expr
    is_package: bool = False

    def line(self, lineno: int) -> str:
        lines = self.source.splitlines()
        return lines[lineno - 1] if 0 < lineno <= len(lines) else ""

    def __repr__(self) -> str:
        return f"<module {self.name}>"


def own_nodes(fn_node: ast.AST) -> Iterator[ast.AST]:
    """All nodes lexically inside a function body, not descending into nested defs/lambdas/classes."""
    todo = list(ast.iter_child_nodes(fn_node)) if not isinstance(fn_node, ast.Lambda) else [fn_node.body]
    if isinstance(fn_node, (ast.FunctionDef, ast.AsyncFunctionDef)):
        todo = list(fn_node.body)
    while todo:
        n = todo.pop()
        yield n
        if isinstance(n, (ast.FunctionDef, ast.AsyncFunctionDef, ast.Lambda, ast.ClassDef)):
            continue
        todo.extend(ast.iter_child_nodes(n))


class DB:
    def __init__(self, repo: str | None = None, overlay: dict[str, str] | None = None) -> None:
        self.repo = repo or os.environ.get("VERIF_REPO", REPO)
        self.overlay = overlay or {}  # relpath -> replacement source text (self-test variants; nothing is written to disk)
        self.src = os.path.join(self.repo, "src")
        self.modules: dict[str, Module] = {}
        self.classes: dict[str, ClassInfo] = {}  # by qualname
        self.functions: dict[str, FunctionInfo] = {}  # by qualname
        self.classes_by_name: dict[str, list[ClassInfo]] = {}
        self._li_cache: dict[int, dict[str, str]] = {}
        self._load()
        self._link()

    # ---------------------------------------------------------------- loading
    def _load(self) -> None:
        root = os.path.join(self.src, PKG)
        if not os.path.isdir(root):
            raise AnalysisError(f"package directory not found: {root}")
        for dirpath, dirnames, filenames in os.walk(root):
            dirnames[:] = sorted(d for d in dirnames if d != "__pycache__")
            for fn in sorted(filenames):
                if not fn.endswith(".py"):
                    continue
                path = os.path.join(dirpath, fn)
                rel = os.path.relpath(path, self.repo)
                modparts = os.path.relpath(path, self.src)[:-3].split(os.sep)
                is_pkg = modparts[-1] == "__init__"
                if is_pkg:
                    modparts = modparts[:-1]
                name = ".".join(modparts)
                if rel in self.overlay:
                    source = self.overlay[rel]
                else:
                    with open(path, encoding="utf-8") as f:
                        source = f.read()
                try:
                    tree = ast.parse(source, filename=path)
                except SyntaxError as exc:
                    raise AnalysisError(f"syntax error in {rel}: {exc}") from exc
                m = Module(name, path, rel, tree, source, is_package=is_pkg)
                self.modules[name] = m
                self._index_module(m)
        if len(self.modules) < MODULE_FLOOR:
            raise AnalysisError(f"only {len(self.modules)} modules found under {root}, floor is {MODULE_FLOOR}")

    def digest(self, relpaths: list[str] | None = None) -> str:
        h = hashlib.sha256()
        for m in sorted(self.modules.values(), key=lambda m: m.relpath):
            if relpaths is None or m.relpath in relpaths:
                h.update(m.relpath.encode())
                h.update(m.source.encode())
        return h.hexdigest()[:16]

    def _index_module(self, m: Module) -> None:
        pkg_parts = m.name.split(".") if m.is_package else m.name.split(".")[:-1]

        def visit_imports(body: list[ast.stmt]) -> None:
            for st in body:
                if isinstance(st, ast.Import):
                    for a in st.names:
                        if a.asname:
                            m.imports[a.asname] = a.name
                        else:
                            m.imports[a.name.split(".")[0]] = a.name.split(".")[0]
                elif isinstance(st, ast.ImportFrom):
                    if st.level:
                        base = pkg_parts[: len(pkg_parts) - (st.level - 1)]
                        target = ".".join(base + (st.module.split(".") if st.module else []))
                    else:
                        target = st.module or ""
                    for a in st.names:
                        if a.name == "*":
                            m.star_imports.append(target)
                        else:
                            m.imports[a.asname or a.name] = f"{target}.{a.name}"
                elif isinstance(st, ast.If):
                    visit_imports(st.body)
                    visit_imports(st.orelse)
                elif isinstance(st, ast.Try):
                    visit_imports(st.body)
                    for h in st.handlers:
                        visit_imports(h.body)
                    visit_imports(st.orelse)
                    visit_imports(st.finalbody)

        visit_imports(m.tree.body)
        # function-level imports (lazy imports are common in this repo) are indexed per function on demand

        def visit_body(body: list[ast.stmt]) -> None:
            for st in body:
                if isinstance(st, (ast.FunctionDef, ast.AsyncFunctionDef)):
                    fi = self._make_function(m, st, None, None, st.name)
                    m.functions.setdefault(st.name, fi)  # first definition wins for overloads? no: last wins below
                    m.functions[st.name] = fi
                elif isinstance(st, ast.ClassDef):
                    self._make_class(m, st, prefix="")
                elif isinstance(st, ast.Assign) and len(st.targets) == 1 and isinstance(st.targets[0], ast.Name):
                    m.assigns[st.targets[0].id] = st.value
                elif isinstance(st, ast.AnnAssign) and isinstance(st.target, ast.Name) and st.value is not None:
                    m.assigns[st.target.id] = st.value
                elif isinstance(st, ast.If):
                    visit_body(st.body)
                    visit_body(st.orelse)
                elif isinstance(st, ast.Try):
                    visit_body(st.body)
                    visit_body(st.orelse)

        visit_body(m.tree.body)

    def _decorators(self, node: ast.AST) -> list[str]:
        out = []
        for d in getattr(node, "decorator_list", []):
            if isinstance(d, ast.Call):
                d = d.func
            out.append(dotted(d) or "?")
        return out

    def _make_function(self, m: Module, node, cls: ClassInfo | None, parent: FunctionInfo | None, qual: str) -> FunctionInfo:
        fi = FunctionInfo(
            name=getattr(node, "name", "<lambda>"),
            qualname=f"{m.name}:{qual}",
            module=m,
            node=node,
            cls=cls,
            parent=parent,
            decorators=self._decorators(node),
        )
        # overloads: keep the implementation (last definition)
        self.functions[fi.qualname] = fi
        n_lambda = 0
        for sub in own_nodes(node):
            if isinstance(sub, (ast.FunctionDef, ast.AsyncFunctionDef)):
                fi.nested[sub.name] = self._make_function(m, sub, cls, fi, f"{qual}.<locals>.{sub.name}")
            elif isinstance(sub, ast.Lambda):
                n_lambda += 1
                key = f"<lambda{n_lambda}@{sub.lineno}>"
                fi.nested[key] = self._make_function(m, sub, cls, fi, f"{qual}.<locals>.{key}")
            elif isinstance(sub, ast.ClassDef):
                self._make_class(m, sub, prefix=f"{qual}.<locals>.")
        return fi

    def _make_class(self, m: Module, node: ast.ClassDef, prefix: str) -> ClassInfo:
        ci = ClassInfo(
            name=node.name,
            qualname=f"{m.name}.{prefix}{node.name}",
            module=m,
            node=node,
            decorators=self._decorators(node),
            base_exprs=list(node.bases),
        )
        self.classes[ci.qualname] = ci
        self.classes_by_name.setdefault(node.name, []).append(ci)
        if not prefix:
            m.classes[node.name] = ci

        def visit(body: list[ast.stmt]) -> None:
            for st in body:
                if isinstance(st, (ast.FunctionDef, ast.AsyncFunctionDef)):
                    fi = self._make_function(m, st, ci, None, f"{prefix}{node.name}.{st.name}")
                    if st.name in ci.methods and any(d.endswith(".setter") or d.endswith(".deleter") for d in fi.decorators):
                        continue  # keep the property getter
                    ci.methods[st.name] = fi
                elif isinstance(st, ast.AnnAssign) and isinstance(st.target, ast.Name):
                    ci.fields[mangle(node.name, st.target.id)] = st.annotation
                    if st.value is not None:
                        ci.field_values.setdefault(mangle(node.name, st.target.id), []).append((None, st.value))
                elif isinstance(st, ast.Assign):
                    for t in st.targets:
                        if isinstance(t, ast.Name):
                            ci.field_values.setdefault(mangle(node.name, t.id), []).append((None, st.value))
                elif isinstance(st, ast.If):
                    visit(st.body)
                    visit(st.orelse)
                elif isinstance(st, ast.ClassDef):
                    self._make_class(m, st, prefix=f"{prefix}{node.name}.")

        visit(node.body)
        # self.attr stores in methods (incl. nested functions)
        for meth in list(ci.methods.values()):
            self._collect_self_stores(ci, meth)
        return ci

    def _collect_self_stores(self, ci: ClassInfo, fn: FunctionInfo) -> None:
        selfn = fn.self_name
        if selfn is None:
            return
        todo = [fn]
        while todo:
            f = todo.pop()
            todo += list(f.nested.values())
            for n in own_nodes(f.node):
                tgt = None
                val: ast.AST | None = None
                if isinstance(n, ast.AnnAssign):
                    tgt, val = n.target, n.value
                    if isinstance(tgt, ast.Attribute) and isinstance(tgt.value, ast.Name) and tgt.value.id == selfn:
                        ci.fields.setdefault(mangle(ci.name, tgt.attr), n.annotation)
                elif isinstance(n, ast.Assign):
                    for t in n.targets:
                        for tt in t.elts if isinstance(t, ast.Tuple) else [t]:
                            if isinstance(tt, ast.Attribute) and isinstance(tt.value, ast.Name) and tt.value.id == selfn:
                                ci.field_values.setdefault(mangle(ci.name, tt.attr), []).append((f, n.value if not isinstance(t, ast.Tuple) else n))
                    continue
                elif isinstance(n, ast.AugAssign):
                    tgt, val = n.target, n
                if isinstance(tgt, ast.Attribute) and isinstance(tgt.value, ast.Name) and tgt.value.id == selfn and val is not None:
                    ci.field_values.setdefault(mangle(ci.name, tgt.attr), []).append((f, val))

    # ---------------------------------------------------------------- linking
    def _link(self) -> None:
        for ci in self.classes.values():
            for b in ci.base_exprs:
                if isinstance(b, ast.Subscript):
                    b = b.value
                d = dotted(b)
                if d is None:
                    continue
                tgt = self.resolve(ci.module, d)
                if isinstance(tgt, ClassInfo):
                    ci.bases.append(tgt)
                    tgt.subclasses.append(ci)
                else:
                    ci.external_bases.append(self.resolve_dotted_name(ci.module, d))

    def resolve_dotted_name(self, m: Module, d: str, _depth: int = 0) -> str:
        """Expand the first component through the import table: `_ssl.SSLError` -> `ssl.SSLError`."""
        head, _, rest = d.partition(".")
        if head in m.imports:
            full = m.imports[head]
            return f"{full}.{rest}" if rest else full
        # module-level alias of an import: `_ssl_module = _ssl` (optional-dependency idiom)
        val = m.assigns.get(head)
        if isinstance(val, (ast.Name, ast.Attribute)) and _depth < 4:
            inner = dotted(val)
            if inner and inner.split(".")[0] != head:
                full = self.resolve_dotted_name(m, inner, _depth + 1)
                return f"{full}.{rest}" if rest else full
        return d

    def lookup(self, full: str, _depth: int = 0) -> "Module | ClassInfo | FunctionInfo | ast.expr | None":
        """Find a repo object by absolute dotted path, following re-exports."""
        if _depth > 8:
            return None
        if full in self.modules:
            return self.modules[full]
        if full in self.classes:
            return self.classes[full]
        parts = full.split(".")
        for i in range(len(parts) - 1, 0, -1):
            modname = ".".join(parts[:i])
            if modname in self.modules:
                m = self.modules[modname]
                rest = parts[i:]
                return self._lookup_in(m, rest, _depth)
        return None

    def _lookup_in(self, m: Module, rest: list[str], depth: int):
        head = rest[0]
        obj = None
        if head in m.classes:
            obj = m.classes[head]
        elif head in m.functions:
            obj = m.functions[head]
        elif head in m.imports:
            obj = self.lookup(".".join([m.imports[head]] + rest[1:]), depth + 1)
            return obj
        elif head in m.assigns:
            obj = m.assigns[head]
            # alias `X = Y`
            d = dotted(obj) if isinstance(obj, ast.AST) else None
            if d:
                r = self.resolve(m, d)
                if r is not None:
                    obj = r
        else:
            for star in m.star_imports:
                r = self.lookup(".".join([star] + rest), depth + 1)
                if r is not None:
                    return r
            sub = f"{m.name}.{head}"
            if sub in self.modules:
                obj = self.modules[sub]
                if len(rest) > 1:
                    return self._lookup_in(obj, rest[1:], depth)
                return obj
            return None
        for attr in rest[1:]:
            if isinstance(obj, ClassInfo):
                meth = obj.find_method(attr)
                if meth is not None:
                    obj = meth
                    continue
                nested = self.classes.get(f"{obj.qualname}.{attr}")
                if nested is not None:
                    obj = nested
                    continue
                return None
            elif isinstance(obj, Module):
                return self._lookup_in(obj, rest[rest.index(attr):], depth)
            else:
                return None
        return obj

    def resolve(self, m: Module, d: str, fn: FunctionInfo | None = None):
        """Resolve a dotted name written in module `m` (optionally inside function `fn`) to a repo object."""
        head, _, rest = d.partition(".")
        # function-local imports
        f = fn
        while f is not None:
            li = self.local_imports(f)
            if head in li:
                return self.lookup(li[head] + ("." + rest if rest else ""))
            f = f.parent
        if head in m.imports:
            return self.lookup(m.imports[head] + ("." + rest if rest else ""))
        return self._lookup_in(m, d.split("."), 0) if (head in m.classes or head in m.functions or head in m.assigns or m.star_imports) else None

    def external_name(self, m: Module, d: str, fn: FunctionInfo | None = None) -> str:
        """Dotted name with its head expanded through import tables (module- and function-level)."""
        head, _, rest = d.partition(".")
        f = fn
        while f is not None:
            li = self.local_imports(f)
            if head in li:
                return li[head] + ("." + rest if rest else "")
            f = f.parent
        return self.resolve_dotted_name(m, d)

    def local_imports(self, fn: FunctionInfo) -> dict[str, str]:
        key = id(fn)
        if key in self._li_cache:
            return self._li_cache[key]
        out: dict[str, str] = {}
        m = fn.module
        pkg_parts = m.name.split(".") if m.is_package else m.name.split(".")[:-1]
        for st in own_nodes(fn.node):
            if isinstance(st, ast.Import):
                for a in st.names:
                    if a.asname:
                        out[a.asname] = a.name
                    else:
                        out[a.name.split(".")[0]] = a.name.split(".")[0]
            elif isinstance(st, ast.ImportFrom):
                if st.level:
                    base = pkg_parts[: len(pkg_parts) - (st.level - 1)]
                    target = ".".join(base + (st.module.split(".") if st.module else []))
                else:
                    target = st.module or ""
                for a in st.names:
                    out[a.asname or a.name] = f"{target}.{a.name}"
        self._li_cache[key] = out
        return out

    # ---------------------------------------------------------------- queries
    def module(self, name: str) -> Module:
        full = name if name.startswith(PKG) else f"{PKG}.{name}"
        if full not in self.modules:
            raise AnalysisError(f"anchor vanished: module {full}")
        return self.modules[full]

    def cls(self, qual: str) -> ClassInfo:
        full = qual if qual.startswith(PKG) else f"{PKG}.{qual}"
        if full not in self.classes:
            raise AnalysisError(f"anchor vanished: class {full}")
        return self.classes[full]

    def fn(self, qual: str) -> FunctionInfo:
        full = qual if qual.startswith(PKG) else f"{PKG}.{qual}"
        if full not in self.functions:
            moved = self._moved(full)
            if moved is not None:
                return moved
            raise AnalysisError(f"anchor vanished: function {full}")
        return self.functions[full]

    def _moved(self, full: str) -> "FunctionInfo | None":
        """a function / class that was moved to another module and is imported back under the same name by the module that
        used to define it is followed to its new home"""
        if ":" not in full:
            return None
        mod, name = full.split(":", 1)
        m = self.modules.get(mod) if hasattr(self, "modules") else None
        head = name.split(".")[0]
        if m is None or head not in m.imports:
            return None
        target = m.imports[head]  # dotted: package.module.name
        tmod, _, tname = target.rpartition(".")
        if tname != head:
            return None
        return self.functions.get(f"{tmod}:{name}")

    def fn_opt(self, qual: str) -> FunctionInfo | None:
        full = qual if qual.startswith(PKG) else f"{PKG}.{qual}"
        return self.functions.get(full)

    def all_functions(self) -> list[FunctionInfo]:
        return list(self.functions.values())

    def overrides(self, ci: ClassInfo, name: str) -> list[FunctionInfo]:
        """All repo implementations of method `name` that a receiver statically typed `ci` may dispatch to."""
        out: list[FunctionInfo] = []
        base = ci.find_method(name)
        if base is not None:
            out.append(base)
        for sub in ci.all_subclasses():
            f = sub.methods.get(name)
            if f is not None and f not in out:
                out.append(f)
        return out


def src_of(node: ast.AST) -> str:
    try:
        return ast.unparse(node)
    except Exception:  # pragma: no cover
        return f"<{type(node).__name__}>"


def norm_stmt(node: ast.AST, limit: int = 160) -> str:
    """Normalised statement text used as the stable key of a finding (first line of the unparsed node)."""
    s = src_of(node).split("\n")[0].strip()
    return s[:limit]
