"""Turn a unified diff (seeded change / benign refactoring) into an overlay {relpath: new source} for the program database, without
touching the tree under analysis: the touched files are copied to a scratch directory, patched there and read back."""
from __future__ import annotations

import os
import shutil
import subprocess
import tempfile


def patch_files(patch: str) -> list[str]:
    return [ln[6:].strip() for ln in open(patch) if ln.startswith("+++ b/")]


def overlay_for(patch: str, repo: str | None = None) -> tuple[dict[str, str] | None, str]:
    repo = repo or os.environ.get("VERIF_REPO", "/repo")
    tmp = tempfile.mkdtemp(prefix="seedov_")
    try:
        files = patch_files(patch)
        for f in files:
            os.makedirs(os.path.dirname(os.path.join(tmp, f)), exist_ok=True)
            shutil.copy(os.path.join(repo, f), os.path.join(tmp, f))
        r = subprocess.run(["patch", "-p1", "-s", "-i", os.path.abspath(patch)], cwd=tmp, capture_output=True, text=True)
        if r.returncode != 0:
            r = subprocess.run(["git", "apply", "--unsafe-paths", "--directory", tmp, os.path.abspath(patch)], cwd="/", capture_output=True, text=True)
            if r.returncode != 0:
                return None, r.stdout + r.stderr
        return {f: open(os.path.join(tmp, f)).read() for f in files}, ""
    except OSError as exc:
        return None, str(exc)
    finally:
        shutil.rmtree(tmp, ignore_errors=True)
