"""Structured, outcome-based abstract interpreter over Python statements (DESIGN.md section 2.3).

`Interp(analysis, fn).run()` executes the body of one function on sets of *facts* (finite, hashable
abstract states supplied by the client analysis) and returns an `Out` record:
    normal / ret / brk / cont : {fact -> trace}      exc : {token -> {fact -> trace}}
Sequencing, if/while/for/match, try/except/else/finally and with/async with compose these records.
The analysis is path-sensitive with respect to the facts (sets of facts are never merged into one).
A trace is the (bounded) list of source lines walked to reach the fact: the witness printed in a report.

Granularity: every simple statement is lowered into *atoms* in evaluation order: each Call, Await, Yield,
YieldFrom, NamedExpr, then the statement itself.  A Call that is directly awaited is not an atom of its
own (the Await atom carries it as `.value`).  Synthetic atoms: WithEnter / WithExit / ForIter.
"""
from __future__ import annotations

import ast
from dataclasses import dataclass, field
from typing import Any, Callable, Hashable, Iterable

from .db import FunctionInfo, dotted
from .exc import CANCELLED, Lattice

Fact = Hashable
Trace = tuple
FactMap = dict  # Fact -> Trace

TRACE_MAX = 60


def fm_add(dst: FactMap, fact: Fact, trace: Trace) -> bool:
    if fact in dst:
        return False
    dst[fact] = trace
    return True


def fm_merge(dst: FactMap, src: FactMap) -> bool:
    changed = False
    for f, t in src.items():
        if f not in dst:
            dst[f] = t
            changed = True
    return changed


@dataclass
class Out:
    normal: FactMap = field(default_factory=dict)
    ret: FactMap = field(default_factory=dict)
    brk: FactMap = field(default_factory=dict)
    cont: FactMap = field(default_factory=dict)
    exc: dict = field(default_factory=dict)  # token -> FactMap

    def add_exc(self, token: str, fact: Fact, trace: Trace) -> None:
        fm_add(self.exc.setdefault(token, {}), fact, trace)

    def merge_abrupt(self, other: "Out") -> None:
        fm_merge(self.ret, other.ret)
        fm_merge(self.brk, other.brk)
        fm_merge(self.cont, other.cont)
        for tok, fmap in other.exc.items():
            fm_merge(self.exc.setdefault(tok, {}), fmap)

    def merge(self, other: "Out") -> None:
        fm_merge(self.normal, other.normal)
        self.merge_abrupt(other)

    def kinds(self) -> list[tuple[str, str | None, FactMap]]:
        out = [("normal", None, self.normal), ("ret", None, self.ret), ("brk", None, self.brk), ("cont", None, self.cont)]
        out += [("exc", tok, fmap) for tok, fmap in self.exc.items()]
        return [(k, t, m) for k, t, m in out if m]

    def put(self, kind: str, token: str | None, fact: Fact, trace: Trace) -> None:
        if kind == "exc":
            self.add_exc(token, fact, trace)  # type: ignore[arg-type]
        else:
            fm_add(getattr(self, kind), fact, trace)


# ---------------------------------------------------------------------------------------------- synthetic atoms
@dataclass(eq=False)
class WithEnter:
    item: ast.withitem
    stmt: ast.With | ast.AsyncWith
    is_async: bool

    @property
    def lineno(self) -> int:
        return self.item.context_expr.lineno


@dataclass(eq=False)
class WithExit:
    item: ast.withitem
    stmt: ast.With | ast.AsyncWith
    is_async: bool
    kind: str  # outcome kind of the body that is being exited
    token: str | None

    @property
    def lineno(self) -> int:
        return self.item.context_expr.lineno


@dataclass(eq=False)
class ForIter:
    stmt: ast.For | ast.AsyncFor
    is_async: bool

    @property
    def lineno(self) -> int:
        return self.stmt.lineno


@dataclass(eq=False)
class TestAtom:
    """The evaluation of a branch condition (after its sub-expressions): lets rules see reads made by a test."""
    test: ast.AST

    @property
    def lineno(self) -> int:
        return getattr(self.test, "lineno", 0)


@dataclass(eq=False)
class FnExit:
    """Implicit fall-off-the-end return."""
    fn: FunctionInfo

    @property
    def lineno(self) -> int:
        return getattr(self.fn.node, "end_lineno", self.fn.node.lineno)


# ---------------------------------------------------------------------------------------------- atoms of expressions
def expr_atoms(e: ast.AST | None, cond: bool = False) -> list[tuple[ast.AST, bool]]:
    """(node, conditional) in evaluation order."""
    out: list[tuple[ast.AST, bool]] = []
    if e is None:
        return out

    def go(n: ast.AST, c: bool) -> None:
        if isinstance(n, (ast.Lambda, ast.FunctionDef, ast.AsyncFunctionDef, ast.ClassDef)):
            return
        if isinstance(n, ast.Await):
            v = n.value
            if isinstance(v, ast.Call):
                go(v.func, c)
                for a in v.args:
                    go(a, c)
                for k in v.keywords:
                    go(k.value, c)
            else:
                go(v, c)
            out.append((n, c))
            return
        if isinstance(n, ast.Call):
            go(n.func, c)
            for a in n.args:
                go(a, c)
            for k in n.keywords:
                go(k.value, c)
            out.append((n, c))
            return
        if isinstance(n, ast.BoolOp):
            go(n.values[0], c)
            for v in n.values[1:]:
                go(v, True)
            return
        if isinstance(n, ast.IfExp):
            go(n.test, c)
            go(n.body, True)
            go(n.orelse, True)
            return
        if isinstance(n, (ast.ListComp, ast.SetComp, ast.GeneratorExp, ast.DictComp)):
            first = True
            for g in n.generators:
                go(g.iter, c if first else True)
                first = False
                for i in g.ifs:
                    go(i, True)
            if isinstance(n, ast.DictComp):
                go(n.key, True)
                go(n.value, True)
            else:
                go(n.elt, True)
            return
        if isinstance(n, (ast.Yield, ast.YieldFrom)):
            if n.value is not None:
                go(n.value, c)
            out.append((n, c))
            return
        if isinstance(n, ast.NamedExpr):
            go(n.value, c)
            out.append((n, c))
            return
        for ch in ast.iter_child_nodes(n):
            go(ch, c)

    go(e, cond)
    return out


# ---------------------------------------------------------------------------------------------- client base class
class Analysis:
    """Base class of all flow rules.  Override what is needed."""

    #: exception tokens of this analysis, most specific first
    tokens: tuple[str, ...] = ("OSError", "Exception", CANCELLED, "BaseException")

    def __init__(self, lattice: Lattice) -> None:
        self.lattice = lattice
        self.fn: FunctionInfo | None = None
        self.interp: "Interp | None" = None

    # -- facts ---------------------------------------------------------------------------------
    def initial(self, fn: FunctionInfo) -> Iterable[Fact]:
        return [()]

    def transfer(self, node: Any, fact: Fact) -> Iterable[Fact]:
        """Normal-completion successors of executing atom `node` in `fact`."""
        return [fact]

    def may_raise(self, node: Any, fact: Fact) -> Iterable[str]:
        """Exception tokens atom `node` may raise.  Default policy (DESIGN 2.3): any call / await / with-enter /
        iteration may raise every non-cancellation token; an await (and async with/for) may also raise Cancelled."""
        if isinstance(node, ast.Await) or (isinstance(node, (WithEnter, ForIter)) and node.is_async):
            return self.tokens
        if isinstance(node, (ast.Call, WithEnter, ForIter)):
            return [t for t in self.tokens if t != CANCELLED]
        if isinstance(node, WithExit):
            return []
        return []

    def raise_fact(self, node: Any, fact: Fact, token: str) -> Iterable[Fact]:
        """Fact(s) carried on the exception edge `token` out of atom `node` (default: the pre-state)."""
        return [fact]

    def branch(self, test: ast.AST, fact: Fact) -> tuple[Iterable[Fact] | None, Iterable[Fact] | None]:
        """Refine `fact` on the true / false edge of `test`.  None = infeasible edge."""
        return [fact], [fact]

    def for_exhausted(self, node: "ForIter", fact: Fact) -> Iterable[Fact]:
        """Fact(s) on the edge that leaves a `for` loop because its iterator is exhausted (default: unchanged)."""
        return [fact]

    def with_exit(self, node: WithExit, fact: Fact) -> Iterable[tuple[str, str | None, Fact]]:
        """What happens when the body of `with` leaves with outcome (node.kind, node.token): default pass-through."""
        return [(node.kind, node.token, fact)]

    def handler_entry(self, handler: ast.ExceptHandler, token: str, fact: Fact) -> Iterable[Fact]:
        return [fact]

    def raised_token(self, node: ast.Raise, fact: Fact) -> Iterable[str] | None:
        """Override to decide the token(s) of an explicit `raise X`; None = engine default."""
        return None

    def handler_types(self, fn: FunctionInfo, type_expr: ast.AST | None) -> list[str] | None:
        return self.lattice.handler_classes(fn, type_expr, self.resolve_handler_attr)

    def resolve_handler_attr(self, fn: FunctionInfo, expr: ast.AST) -> list[str] | None:
        return None


@dataclass
class Ctx:
    handler_tokens: list = field(default_factory=list)  # stack of (token, name) of enclosing except handlers
    with_stack: list = field(default_factory=list)  # enclosing with items (ast.withitem, is_async)
    loop_depth: int = 0
    try_stack: list = field(default_factory=list)
    stmt_stack: list = field(default_factory=list)


def _boolean_shaped(e: ast.AST) -> bool:
    """An expression that can only be a truth value: a negation, a comparison, a boolean combination of such, or a call of a
    predicate (`is_*`, `has_*`, `*_is_empty`, isinstance, callable)."""
    if isinstance(e, ast.UnaryOp) and isinstance(e.op, ast.Not):
        return True
    if isinstance(e, ast.Compare):
        return True
    if isinstance(e, ast.BoolOp):
        return all(_boolean_shaped(v) for v in e.values)
    if isinstance(e, ast.Call):
        name = e.func.attr if isinstance(e.func, ast.Attribute) else getattr(e.func, "id", "")
        name = name.lstrip("_")
        return name.startswith(("is_", "has_", "isinstance", "callable")) or "_is_" in name
    return False


class Interp:
    def __init__(self, analysis: Analysis, fn: FunctionInfo, max_iter: int = 50) -> None:
        self.a = analysis
        self.fn = fn
        self.ctx = Ctx()
        self.max_iter = max_iter
        self.atoms_walked = 0
        self.stmts_walked = 0
        self._inline_stack: list = []
        self._ret_recorders: list[dict] = []
        self._inline_ret_consts: dict[int, dict] = {}
        self._inline_ret_opaque: set[int] = set()
        self.inline_args: list = []
        self._refine_depth = 0
        self.inlined: set[str] = set()
        analysis.fn = fn
        analysis.interp = self

    # -------------------------------------------------------------------------------- entry
    def run(self) -> Out:
        init: FactMap = {f: () for f in self.a.initial(self.fn)}
        node = self.fn.node
        if isinstance(node, ast.Lambda):
            out = self.exec_expr(node.body, init)
            fm_merge(out.ret, out.normal)
            out.normal = {}
            return out
        out = self.exec_block(node.body, init)
        # implicit return
        if out.normal:
            res = self.exec_atom(FnExit(self.fn), out.normal)
            out.normal = {}
            fm_merge(out.ret, res.normal)
            out.merge_abrupt(res)
        return out

    # -------------------------------------------------------------------------------- private helpers are followed
    INLINE_DEPTH = 2
    INLINE_MAX_STMTS = 40

    def _inline_target(self, node: Any):
        """The private helper (same class: `self._x()` / `self.__x()`, same module: `_x()`) that the call / await atom `node` runs,
        if it can be interpreted in place: resolved uniquely, not recursive, arguments are the parameters' namesakes (the analyses are
        name-based), small.  A wrapper extracted by a refactoring is thereby read like the statements it wraps (DESIGN 10.8)."""
        a = self.a
        eng = getattr(a, "engine", None)
        if eng is None or not getattr(a, "inline_helpers", False) or len(self._inline_stack) >= self.INLINE_DEPTH:
            return None
        is_await = isinstance(node, ast.Await)
        call = node.value if is_await and isinstance(node.value, ast.Call) else (node if isinstance(node, ast.Call) else None)
        if call is None:
            return None
        cur = a.fn
        if cur is None:
            return None
        f = call.func
        g = None
        if isinstance(f, ast.Attribute) and isinstance(f.value, ast.Name) and cur.self_name is not None and f.value.id == cur.self_name and f.attr.startswith("_") and not f.attr.endswith("__") \
                and cur.cls is not None:
            g = cur.cls.methods.get(f.attr)  # defined in this very class (not inherited, not overridable from elsewhere: private by convention)
        elif isinstance(f, ast.Name) and f.id.startswith("_") and f.id in cur.module.functions:
            g = cur.module.functions[f.id]
        if g is None or isinstance(g.node, ast.Lambda) or g is cur or any(g is x for x in self._inline_stack) or g.is_generator:
            return None
        if g.is_async != is_await or (not is_await and self._awaited_call(call)):
            return None
        if g.has_decorator("property") or g.has_decorator("abstractmethod") or g.has_decorator("contextmanager") or g.has_decorator("asynccontextmanager"):
            return None
        veto = getattr(a, "keeps_opaque", None)
        if veto is not None and veto(g, node):
            return None
        args = g.node.args
        if args.vararg or args.kwarg or sum(1 for _ in ast.walk(g.node) if isinstance(_, ast.stmt)) > self.INLINE_MAX_STMTS:
            return None
        params = [x.arg for x in args.posonlyargs + args.args]
        if g.cls is not None and not g.has_decorator("staticmethod") and params:
            params = params[1:]
        given = list(call.args) + [k.value for k in call.keywords]
        names = params[: len(call.args)] + [k.arg for k in call.keywords]
        if not getattr(a, "inline_any_args", False):
            for pn, av in zip(names, given):
                if isinstance(av, ast.Constant):
                    continue
                if isinstance(av, ast.Name) and av.id == pn:
                    continue
                return None  # the analyses are name-based: an argument that is not its parameter's namesake would be lost inside the helper
        self._pending_inline_args = dict(zip(names, given))
        return g

    def _awaited_call(self, call: ast.Call) -> bool:
        return False

    def _exec_inline(self, node: Any, g: FunctionInfo, facts: FactMap, cond: bool) -> Out:
        saved_fn, saved_afn, saved_ctx = self.fn, self.a.fn, self.ctx
        self._inline_stack.append(g)
        self.inline_args.append(getattr(self, "_pending_inline_args", {}) or {})  # parameter -> argument expression of this inlined call
        self.fn = g
        self.a.fn = g
        self.ctx = Ctx(handler_tokens=list(saved_ctx.handler_tokens), with_stack=list(saved_ctx.with_stack), loop_depth=0, try_stack=list(saved_ctx.try_stack), stmt_stack=list(saved_ctx.stmt_stack))
        self._ret_recorders.append({})
        try:
            r = self.exec_block(g.node.body, dict(facts))
        finally:
            self._inline_stack.pop()
            self.inline_args.pop()
            rec = self._ret_recorders.pop()
            self.fn, self.a.fn, self.ctx = saved_fn, saved_afn, saved_ctx
        if rec and not r.normal and all(ks <= {True, False} for ks in rec.values()) and set(r.ret) <= set(rec):
            # a helper that answers with `return True` / `return False` only: the facts keep the answer they were returned with, so a
            # test on the call (`if not self._try_x(sock): continue`) sends each of them down its own edge
            cur = self._inline_ret_consts.setdefault(id(node), {})
            for fact, ks in rec.items():
                cur.setdefault(fact, set()).update(ks)
        else:
            self._inline_ret_consts.pop(id(node), None)
            self._inline_ret_opaque.add(id(node))
        out = Out()
        out.merge_abrupt(r)
        # the callee's returns are the caller's normal continuation
        fm_merge(out.normal, r.normal)
        fm_merge(out.normal, out.ret)
        out.ret = {}
        out.brk, out.cont = {}, {}
        if cond:
            fm_merge(out.normal, facts)
        self.inlined.add(g.qualname)
        return out

    # -------------------------------------------------------------------------------- atoms
    def exec_atom(self, node: Any, facts: FactMap, cond: bool = False) -> Out:
        if isinstance(node, (ast.Call, ast.Await)) and facts:
            g = self._inline_target(node)
            if g is not None:
                return self._exec_inline(node, g, facts, cond)
        out = Out()
        self.atoms_walked += 1
        line = getattr(node, "lineno", 0)
        for fact, trace in facts.items():
            tr = (trace + (line,))[-TRACE_MAX:] if (not trace or trace[-1] != line) else trace
            if cond:
                fm_add(out.normal, fact, trace)
            for tok in self.a.may_raise(node, fact):
                for rf in self.a.raise_fact(node, fact, tok):
                    out.add_exc(tok, rf, tr)
            for nf in self.a.transfer(node, fact):
                fm_add(out.normal, nf, tr)
        return out

    def exec_expr(self, e: ast.AST | None, facts: FactMap) -> Out:
        out = Out()
        cur = facts
        for node, cond in expr_atoms(e):
            if not cur:
                break
            r = self.exec_atom(node, cur, cond)
            out.merge_abrupt(r)
            cur = r.normal
        out.normal = dict(cur)
        return out

    # -------------------------------------------------------------------------------- blocks
    def exec_block(self, stmts: list[ast.stmt], facts: FactMap) -> Out:
        out = Out()
        cur = facts
        for st in stmts:
            if not cur:
                break
            r = self.exec_stmt(st, cur)
            out.merge_abrupt(r)
            cur = r.normal
        out.normal = dict(cur)
        return out

    def exec_stmt(self, st: ast.stmt, facts: FactMap) -> Out:
        self.stmts_walked += 1
        self.ctx.stmt_stack.append(st)
        try:
            m = getattr(self, "st_" + type(st).__name__, None)
            if m is not None:
                return m(st, facts)
            return self.st_simple(st, facts)
        finally:
            self.ctx.stmt_stack.pop()

    def st_simple(self, st: ast.stmt, facts: FactMap) -> Out:
        """Assign, AugAssign, AnnAssign, Expr, Delete, Assert, Pass, Import, Global, Nonlocal ..."""
        if isinstance(st, (ast.FunctionDef, ast.AsyncFunctionDef, ast.ClassDef)):
            return self.exec_atom(st, facts)
        out = Out()
        cur = facts
        for ch in ast.iter_child_nodes(st):
            if isinstance(ch, ast.expr_context):
                continue
            r = self.exec_expr(ch, cur)
            out.merge_abrupt(r)
            cur = r.normal
        r = self.exec_atom(st, cur)
        out.merge_abrupt(r)
        out.normal = r.normal
        if isinstance(st, ast.Assert):
            # a failing assert raises AssertionError -> 'Exception' token (only if the analysis wants it)
            pass
        return out

    def st_Return(self, st: ast.Return, facts: FactMap) -> Out:
        out = self.exec_expr(st.value, facts)
        r = self.exec_atom(st, out.normal)
        out.merge_abrupt(r)
        out.ret = dict(out.ret)
        fm_merge(out.ret, r.normal)
        if self._ret_recorders:
            # inside a helper interpreted in place: which constant each fact is returned with (`return True` / `return False`)
            v = st.value
            key = v.value if isinstance(v, ast.Constant) and isinstance(v.value, bool) else "?"
            for fact in r.normal:
                self._ret_recorders[-1].setdefault(fact, set()).add(key)
        out.normal = {}
        return out

    def st_Raise(self, st: ast.Raise, facts: FactMap) -> Out:
        out = self.exec_expr(st.exc, facts)
        if st.cause is not None:
            r2 = self.exec_expr(st.cause, out.normal)
            out.merge_abrupt(r2)
            out.normal = r2.normal
        r = self.exec_atom(st, out.normal)
        out.merge_abrupt(r)
        for fact, trace in r.normal.items():
            toks = self.a.raised_token(st, fact)
            if toks is None:
                toks = self.default_raised_tokens(st)
            for tok in toks:
                out.add_exc(tok, fact, trace)
        out.normal = {}
        return out

    def default_raised_tokens(self, st: ast.Raise) -> list[str]:
        uni = self.a.tokens
        if st.exc is None:
            if self.ctx.handler_tokens:
                return [self.ctx.handler_tokens[-1][0]]
            return [t for t in uni]
        e = st.exc
        if isinstance(e, ast.Call):
            if isinstance(e.func, ast.Attribute) and e.func.attr == "with_traceback":
                e = e.func.value
        if isinstance(e, ast.Name):
            for tok, name in reversed(self.ctx.handler_tokens):
                if name == e.id:
                    return [tok]
        cls_expr = e.func if isinstance(e, ast.Call) else e
        names = self.a.lattice.handler_classes(self.fn, cls_expr, self.a.resolve_handler_attr)
        if not names and isinstance(e, ast.Call) and self.fn is not None:
            # an error factory of the repository (`raise _closed_error()`, `raise cls._limit_error(data, n)`): the class named by its
            # return annotation
            try:
                tg = [t for t in self.a.engine.typer.call_targets(self.fn, e, dispatch=False) if hasattr(t, "node") and not isinstance(t.node, ast.Lambda)]
            except Exception:
                tg = []
            if len(tg) == 1 and getattr(tg[0].node, "returns", None) is not None:
                names = self.a.lattice.handler_classes(tg[0], tg[0].node.returns, self.a.resolve_handler_attr)
        if names and len(names) == 1:
            if self.a.lattice.ancestry(names[0]) is not None and getattr(self.a, "precise_raise_tokens", False):
                return [names[0]]  # the raised class itself is the token (its ancestry is known to the lattice)
            tok = self.a.lattice.token_for(names[0], uni)
            if tok is not None:
                return [tok]
        d = dotted(cls_expr)
        if d and d.split(".")[-1] == "error_from_errno":
            return ["OSError"] if "OSError" in uni else ["Exception"]
        # unknown expression (a variable holding an exception): any non-cancellation token
        return [t for t in uni if t != CANCELLED] or list(uni)

    # -------------------------------------------------------------------------------- branching
    def _branch(self, test: ast.AST, facts: FactMap) -> tuple[Out, FactMap, FactMap]:
        if getattr(self.a, "short_circuit_tests", False):
            # exact short-circuit evaluation (opt-in): the atoms of a later operand run only on the facts that reach it
            if isinstance(test, ast.BoolOp):
                is_or = isinstance(test.op, ast.Or)
                ev = Out()
                cur = facts
                done: FactMap = {}
                for v in test.values:
                    if not cur:
                        break
                    e1, t1, f1 = self._branch(v, cur)
                    ev.merge_abrupt(e1)
                    fm_merge(done, t1 if is_or else f1)
                    cur = f1 if is_or else t1
                return (ev, done, cur) if is_or else (ev, cur, done)
            if isinstance(test, ast.UnaryOp) and isinstance(test.op, ast.Not):
                ev, t1, f1 = self._branch(test.operand, facts)
                return ev, f1, t1
        ev = self.exec_expr(test, facts)
        ta = self.exec_atom(TestAtom(test), ev.normal)
        ev.merge_abrupt(ta)
        ev.normal = ta.normal
        tmap: FactMap = {}
        fmap: FactMap = {}
        line = getattr(test, "lineno", 0)
        for fact, trace in ev.normal.items():
            tr = (trace + (line,))[-TRACE_MAX:] if (not trace or trace[-1] != line) else trace
            ts, fs = self._refine(test, [fact])
            for x in ts:
                fm_add(tmap, x, tr)
            for x in fs:
                fm_add(fmap, x, tr)
        ev.normal = {}
        return ev, tmap, fmap

    def _refine(self, test: ast.AST, facts: list) -> tuple[list, list]:
        """(facts on the true edge, facts on the false edge); `and` / `or` / `not` are decomposed so that the
        analysis' branch() only ever sees the leaves."""
        const = _const_truth(test)
        if const is True:
            return list(facts), []
        if const is False:
            return [], list(facts)
        if isinstance(test, ast.BoolOp):
            cur = list(facts)
            if isinstance(test.op, ast.And):
                false_out: list = []
                for v in test.values:
                    t, f = self._refine(v, cur)
                    false_out += f
                    cur = t
                return cur, false_out
            true_out: list = []
            for v in test.values:
                t, f = self._refine(v, cur)
                true_out += t
                cur = f
            return true_out, cur
        if isinstance(test, ast.UnaryOp) and isinstance(test.op, ast.Not) and isinstance(test.operand, ast.BoolOp):
            t, f = self._refine(test.operand, facts)
            return f, t
        if isinstance(test, ast.UnaryOp) and isinstance(test.op, ast.Not) and getattr(self.a, "strip_not_in_tests", True):
            # `not x`: refine on x and swap the edges, so that a rule's branch() written for the positive form also reads the
            # negated one (guard clauses, swapped arms)
            t, f = self._refine(test.operand, facts)
            return f, t
        if isinstance(test, ast.Name) and getattr(self.a, "resolve_test_locals", True) and getattr(self.a, "fn", None) is not None and not isinstance(self.a.fn.node, ast.Lambda):
            # `flag = <condition>` ... `if flag:` - a boolean held in a single-assignment local is read as the condition it names
            try:
                from .analyses.buffers import assignments
                vals = assignments(self.a.fn).get(test.id, [])
            except Exception:  # noqa: BLE001
                vals = []
            if len(vals) == 1 and isinstance(vals[0], (ast.Await, ast.Call)) and getattr(self.a, "inline_helpers", False) and self._refine_depth < 3:
                # `flag = [await] self._helper()` where the private helper ends in its only `return <condition>`: the helper was
                # interpreted in place when it was called, so the flag is read as that condition
                try:
                    from .norm import private_helper
                    call = vals[0].value if isinstance(vals[0], ast.Await) else vals[0]
                    g = private_helper(self.a.fn, call) if isinstance(call, ast.Call) else None
                except Exception:  # noqa: BLE001
                    g = None
                if g is not None and not isinstance(g.node, ast.Lambda):
                    from .db import own_nodes as _own
                    rets = [r for r in _own(g.node) if isinstance(r, ast.Return)]
                    if len(rets) == 1 and rets[0] is g.node.body[-1] and rets[0].value is not None and (_boolean_shaped(rets[0].value) or isinstance(rets[0].value, ast.Call)) \
                            and not any(isinstance(x, (ast.Await, ast.Yield, ast.YieldFrom, ast.NamedExpr)) for x in ast.walk(rets[0].value)):
                        self._refine_depth += 1
                        try:
                            return self._refine(rets[0].value, facts)
                        finally:
                            self._refine_depth -= 1
            if len(vals) == 1 and _boolean_shaped(vals[0]) and not any(isinstance(x, (ast.Await, ast.Yield, ast.YieldFrom, ast.NamedExpr)) for x in ast.walk(vals[0])) \
                    and not any(isinstance(x, ast.Name) and x.id == test.id for x in ast.walk(vals[0])) and self._refine_depth < 3:
                self._refine_depth += 1
                try:
                    return self._refine(vals[0], facts)
                finally:
                    self._refine_depth -= 1
        if isinstance(test, ast.Call) and getattr(self.a, "inline_predicates", True) and getattr(self.a, "fn", None) is not None and len(self._inline_stack) < self.INLINE_DEPTH:
            # `if self.__is_x(exc):` where the private helper is one `return <boolean expression>` over its parameters' namesakes:
            # refine on that expression
            try:
                from .norm import helper_return_expr
                r = helper_return_expr(self.a.fn, test)
            except Exception:  # noqa: BLE001
                r = None
            if r is not None:
                expr, g = r
                params = [x.arg for x in g.node.args.posonlyargs + g.node.args.args]
                if g.cls is not None and not g.has_decorator("staticmethod") and params:
                    params = params[1:]
                same = all(isinstance(a, ast.Name) and i < len(params) and a.id == params[i] for i, a in enumerate(test.args)) and not test.keywords
                if same and not any(isinstance(x, (ast.Await, ast.Yield, ast.NamedExpr)) for x in ast.walk(expr)):
                    self._inline_stack.append(g)
                    try:
                        return self._refine(expr, facts)
                    finally:
                        self._inline_stack.pop()
        if self.inline_args and isinstance(test, ast.Compare) and len(test.ops) == 1 and isinstance(test.ops[0], (ast.Is, ast.IsNot)) and isinstance(test.left, ast.Name) \
                and isinstance(test.comparators[0], ast.Constant) and test.comparators[0].value is None and test.left.id in self.inline_args[-1]:
            # `<param> is None` inside a helper interpreted in place: decided when the argument is a literal / a lambda / a bound method
            arg = self.inline_args[-1][test.left.id]
            is_none = True if (isinstance(arg, ast.Constant) and arg.value is None) else (False if isinstance(arg, (ast.Constant, ast.Lambda, ast.Attribute, ast.Call, ast.JoinedStr)) else None)
            if is_none is not None:
                truth = is_none if isinstance(test.ops[0], ast.Is) else not is_none
                return (list(facts), []) if truth else ([], list(facts))
        if id(test) in self._inline_ret_consts and id(test) not in self._inline_ret_opaque:
            rec = self._inline_ret_consts[id(test)]
            ts_, fs_ = [], []
            for fact in facts:
                ks = rec.get(fact, {True, False})
                if True in ks:
                    ts_.append(fact)
                if False in ks:
                    fs_.append(fact)
            return ts_, fs_
        ts: list = []
        fs: list = []
        for fact in facts:
            t, f = self.a.branch(test, fact)
            if t is not None:
                ts += list(t)
            if f is not None:
                fs += list(f)
        return ts, fs

    def st_If(self, st: ast.If, facts: FactMap) -> Out:
        out, t, f = self._branch(st.test, facts)
        r1 = self.exec_block(st.body, t) if t else Out()
        r2 = self.exec_block(st.orelse, f) if f else Out()
        out.merge(r1)
        out.merge(r2)
        return out

    def st_While(self, st: ast.While, facts: FactMap) -> Out:
        out = Out()
        head: FactMap = dict(facts)
        exits: FactMap = {}
        pending: FactMap = dict(facts)
        self.ctx.loop_depth += 1
        for _ in range(self.max_iter):
            if not pending:
                break
            ev, t, f = self._branch(st.test, pending)
            out.merge_abrupt(ev)
            fm_merge(exits, f)
            body = self.exec_block(st.body, t) if t else Out()
            fm_merge(out.ret, body.ret)
            for tok, m in body.exc.items():
                fm_merge(out.exc.setdefault(tok, {}), m)
            fm_merge(out.normal, body.brk)  # break leaves the loop, skipping orelse
            nxt: FactMap = {}
            for src in (body.normal, body.cont):
                for fact, tr in src.items():
                    if fact not in head:
                        head[fact] = tr
                        nxt[fact] = tr
            pending = nxt
        else:
            raise RuntimeError(f"loop fixpoint not reached in {self.fn.qualname} line {st.lineno}")
        self.ctx.loop_depth -= 1
        if exits:
            r = self.exec_block(st.orelse, exits) if st.orelse else Out(normal=exits)
            out.merge(r)
        return out

    def _for(self, st: ast.For | ast.AsyncFor, facts: FactMap, is_async: bool) -> Out:
        out = self.exec_expr(st.iter, facts)
        head: FactMap = dict(out.normal)
        pending: FactMap = dict(out.normal)
        out.normal = {}
        exits: FactMap = {}
        it = ForIter(st, is_async)
        self.ctx.loop_depth += 1
        for _ in range(self.max_iter):
            if not pending:
                break
            step = self.exec_atom(it, pending)
            out.merge_abrupt(step)
            # the iterator may be exhausted (-> orelse) or deliver an item (-> body)
            for f_, tr_ in pending.items():
                for f2_ in self.a.for_exhausted(it, f_):
                    fm_add(exits, f2_, tr_)
            body = self.exec_block(st.body, step.normal) if step.normal else Out()
            fm_merge(out.ret, body.ret)
            for tok, m in body.exc.items():
                fm_merge(out.exc.setdefault(tok, {}), m)
            fm_merge(out.normal, body.brk)
            nxt: FactMap = {}
            for src in (body.normal, body.cont):
                for fact, tr in src.items():
                    if fact not in head:
                        head[fact] = tr
                        nxt[fact] = tr
                    fm_add(exits, fact, tr)
            pending = nxt
        else:
            raise RuntimeError(f"loop fixpoint not reached in {self.fn.qualname} line {st.lineno}")
        self.ctx.loop_depth -= 1
        if exits:
            r = self.exec_block(st.orelse, exits) if st.orelse else Out(normal=exits)
            out.merge(r)
        return out

    def st_For(self, st: ast.For, facts: FactMap) -> Out:
        return self._for(st, facts, False)

    def st_AsyncFor(self, st: ast.AsyncFor, facts: FactMap) -> Out:
        return self._for(st, facts, True)

    def st_Break(self, st: ast.Break, facts: FactMap) -> Out:
        r = self.exec_atom(st, facts)
        return Out(brk=r.normal)

    def st_Continue(self, st: ast.Continue, facts: FactMap) -> Out:
        r = self.exec_atom(st, facts)
        return Out(cont=r.normal)

    def st_Match(self, st: ast.Match, facts: FactMap) -> Out:
        out = self.exec_expr(st.subject, facts)
        subj = out.normal
        out.normal = {}
        irrefutable = False
        for case in st.cases:
            cur = subj
            if case.guard is not None:
                ev, t, _f = self._branch(case.guard, cur)
                out.merge_abrupt(ev)
                cur = t
            r = self.exec_block(case.body, cur) if cur else Out()
            out.merge(r)
            if case.guard is None and _irrefutable(case.pattern):
                irrefutable = True
                break
        if not irrefutable:
            fm_merge(out.normal, subj)
        return out

    # -------------------------------------------------------------------------------- try
    def st_Try(self, st: ast.Try, facts: FactMap) -> Out:
        body = self.exec_block(st.body, facts)
        res = Out()
        fm_merge(res.ret, body.ret)
        fm_merge(res.brk, body.brk)
        fm_merge(res.cont, body.cont)
        if body.normal:
            if st.orelse:
                r = self.exec_block(st.orelse, body.normal)
                res.merge(r)
            else:
                fm_merge(res.normal, body.normal)
        handler_types = [self.a.handler_types(self.fn, h.type) for h in st.handlers]
        for tok, fmap in body.exc.items():
            remaining = dict(fmap)
            for h, htypes in zip(st.handlers, handler_types):
                if not remaining:
                    break
                verdict = self.a.lattice.match(htypes, tok, self.a.tokens)
                if verdict == "no":
                    continue
                entry: FactMap = {}
                for fact, tr in remaining.items():
                    for nf in self.a.handler_entry(h, tok, fact):
                        fm_add(entry, nf, (tr + (h.lineno,))[-TRACE_MAX:])
                self.ctx.handler_tokens.append((tok, h.name))
                try:
                    r = self.exec_block(h.body, entry)
                finally:
                    self.ctx.handler_tokens.pop()
                res.merge(r)
                if verdict == "must":
                    remaining = {}
            if remaining:
                fm_merge(res.exc.setdefault(tok, {}), remaining)
        if not st.finalbody:
            return res
        final = Out()
        for kind, tok, fmap in res.kinds():
            if kind == "exc":
                self.ctx.handler_tokens.append((tok, None))
            try:
                r = self.exec_block(st.finalbody, fmap)
            finally:
                if kind == "exc":
                    self.ctx.handler_tokens.pop()
            final.merge_abrupt(r)
            for fact, tr in r.normal.items():
                final.put(kind, tok, fact, tr)
        return final

    st_TryStar = st_Try

    # -------------------------------------------------------------------------------- with
    def _with(self, st: ast.With | ast.AsyncWith, facts: FactMap, is_async: bool, idx: int = 0) -> Out:
        if idx >= len(st.items):
            return self.exec_block(st.body, facts)
        item = st.items[idx]
        out = self.exec_expr(item.context_expr, facts)
        enter = self.exec_atom(WithEnter(item, st, is_async), out.normal)
        out.merge_abrupt(enter)
        out.normal = {}
        if not enter.normal:
            return out
        self.ctx.with_stack.append((item, is_async))
        try:
            body = self._with(st, enter.normal, is_async, idx + 1)
        finally:
            self.ctx.with_stack.pop()
        outcomes = body.kinds()
        if getattr(self.a, "model_suppress", True) and isinstance(item.context_expr, ast.Call) and (dotted(item.context_expr.func) or "").split(".")[-1] == "suppress" and item.context_expr.args:
            # `with contextlib.suppress(X, ...)`: the same as `try: ... except (X, ...): pass` for every analysis
            classes = self.a.handler_types(self.fn, ast.Tuple(elts=list(item.context_expr.args), ctx=ast.Load()))
            conv = []
            for kind, tok, fmap in outcomes:
                if kind == "exc" and tok is not None:
                    m = self.a.lattice.match(classes, tok, self.a.tokens)
                    if m == "must":
                        conv.append(("normal", None, fmap))
                        continue
                    if m == "may":
                        conv.append(("normal", None, fmap))
                conv.append((kind, tok, fmap))
            outcomes = conv
        for kind, tok, fmap in outcomes:
            wx = WithExit(item, st, is_async, kind, tok)
            line = wx.lineno
            for fact, tr in fmap.items():
                tr2 = tr
                for extok in self.a.may_raise(wx, fact):
                    for rf in self.a.raise_fact(wx, fact, extok):
                        out.add_exc(extok, rf, tr2)
                self.atoms_walked += 1
                for fact2 in self.a.transfer(wx, fact):
                    for k2, t2, f2 in self.a.with_exit(wx, fact2):
                        out.put(k2, t2, f2, tr2)
        return out

    def st_With(self, st: ast.With, facts: FactMap) -> Out:
        return self._with(st, facts, False)

    def st_AsyncWith(self, st: ast.AsyncWith, facts: FactMap) -> Out:
        return self._with(st, facts, True)


def _const_truth(test: ast.AST) -> bool | None:
    if isinstance(test, ast.Constant):
        return bool(test.value)
    return None


def _irrefutable(p: ast.pattern) -> bool:
    if isinstance(p, ast.MatchAs):
        return p.pattern is None or _irrefutable(p.pattern)
    if isinstance(p, ast.MatchOr):
        return any(_irrefutable(x) for x in p.patterns)
    return False


# ---------------------------------------------------------------------------------------------- helpers for rules
def call_of(node: Any) -> ast.Call | None:
    """The call performed by an atom: a Call, or the Call directly under an Await."""
    if isinstance(node, ast.Call):
        return node
    if isinstance(node, ast.Await) and isinstance(node.value, ast.Call):
        return node.value
    return None


def method_name(call: ast.Call | None) -> str | None:
    if call is None:
        return None
    if isinstance(call.func, ast.Attribute):
        return call.func.attr
    if isinstance(call.func, ast.Name):
        return call.func.id
    return None
