"""Bundle of the shared engine parts handed to every rule module."""
from __future__ import annotations

import time

from .db import DB
from .exc import Lattice
from .types import Typer


class Engine:
    def __init__(self, repo: str | None = None, overlay: dict | None = None) -> None:
        t0 = time.time()
        self.db = DB(repo, overlay)
        self.typer = Typer(self.db)
        self.lattice = Lattice(self.db)
        self._summaries = None
        self.load_s = time.time() - t0

    @property
    def summaries(self):
        if self._summaries is None:
            from .summary import Summaries

            self._summaries = Summaries(self)
        return self._summaries

    def resolution(self) -> dict:
        """call-resolution rate of the annotation-driven typer over the whole package (vacuity guard, DESIGN 2.2)"""
        import ast as _ast

        from .db import own_nodes

        tot = res = 0
        for fn in self.db.all_functions():
            for n in own_nodes(fn.node):
                if isinstance(n, _ast.Call):
                    tot += 1
                    try:
                        if self.typer.call_targets(fn, n):
                            res += 1
                    except RecursionError:
                        pass
        return {"call_sites": tot, "resolved": res, "rate": round(res / max(tot, 1), 4)}

    def stats(self) -> dict:
        return {
            "repo": self.db.repo,
            "modules": len(self.db.modules),
            "classes": len(self.db.classes),
            "functions": len(self.db.functions),
            "source_digest": self.db.digest(),
            "load_s": round(self.load_s, 3),
        }
