"""Findings, obligations, evidence files, known findings, exit protocol (DESIGN.md section 2.7)."""
from __future__ import annotations

import hashlib
import json
import os
import time
from dataclasses import dataclass, field
from typing import Any

VERIF = os.path.dirname(os.path.dirname(os.path.abspath(__file__)))
KNOWN_FILE = os.path.join(VERIF, "known_findings.json")


@dataclass
class Finding:
    prop: str
    rule: str
    function: str  # "pkg.mod:Class.meth"
    statement: str  # normalised text of the offending construct
    message: str
    file: str = ""
    line: int = 0
    witness: list = field(default_factory=list)

    @property
    def key(self) -> tuple[str, str, str, str]:
        return (self.prop, self.rule, self.function, self.statement)

    def to_json(self) -> dict:
        return {
            "property": self.prop,
            "rule": self.rule,
            "function": self.function,
            "statement": self.statement,
            "message": self.message,
            "file": self.file,
            "line": self.line,
            "witness_lines": list(self.witness),
        }


class Run:
    """One execution of one property's rule set."""

    def __init__(self, prop: str, tier: str, seed: int = 0) -> None:
        self.prop = prop
        self.tier = tier
        self.seed = seed
        self.t0 = time.time()
        self.findings: list[Finding] = []
        self.obligations: list[dict] = []  # every rule instance checked, with verdict
        self.counters: dict[str, int] = {}
        self.assumptions: list[str] = []
        self.not_decided: list[str] = []
        self.tables: dict[str, Any] = {}
        self.notes: list[str] = []
        self.floors: dict[str, tuple[int, int]] = {}
        self.selftest: dict[str, Any] = {}
        self.engine_stats: dict[str, Any] = {}
        self.quiet = False
        self.deferred: list = []

    # ---------------------------------------------------------------- recording
    def ob(self, rule: str, instance: str, ok: bool, **detail: Any) -> None:
        """Record one obligation (rule instance) and its verdict."""
        rec = {"rule": rule, "instance": instance, "holds": bool(ok)}
        rec.update(detail)
        self.obligations.append(rec)

    def finding(self, rule: str, fn, node, message: str, witness=()) -> Finding:
        from .db import norm_stmt

        f = Finding(
            prop=self.prop,
            rule=rule,
            function=fn.qualname if hasattr(fn, "qualname") else str(fn),
            statement=norm_stmt(node) if not isinstance(node, str) else node,
            message=message,
            file=getattr(fn, "file", ""),
            line=getattr(node, "lineno", 0) if not isinstance(node, str) else getattr(fn, "lineno", 0),
            witness=[w for w in witness],
        )
        if f.key not in [g.key for g in self.findings]:
            self.findings.append(f)
        return f

    def count(self, name: str, n: int = 1) -> None:
        self.counters[name] = self.counters.get(name, 0) + n

    def floor(self, what: str, measured: int, minimum: int) -> None:
        """Vacuity guard: an anchor/role query that yields fewer instances than confirmed by hand is an analysis error."""
        from .db import AnalysisError

        # `minimum` is the number of instances confirmed by hand on the pinned tree; a refactoring may legitimately merge a few of
        # them (two call sites folded into one helper), so the guard fires when more than ~30 % of them are gone - which is what a
        # vanished role query looks like - and always when nothing at all is found
        effective = minimum if minimum <= 1 else max(1, (minimum * 7) // 10)
        self.floors[what] = (measured, effective)
        if measured < effective:
            raise AnalysisError(f"anchor vanished: {what}: found {measured}, floor {effective} (confirmed on the pinned tree: {minimum})")

    # ---------------------------------------------------------------- rule groups
    def attempt(self, rule_fn, *args, **kwargs):
        """Run one group of rules.  An analysis error inside it (vanished anchor, floor not met) is deferred: the other groups still
        run, and `end_of_rules()` decides - a violation found elsewhere is reported as such (exit 1, the error becomes a warning);
        only when nothing was found is the run an ANALYSIS-ERROR (exit 2).  A changed tree that both breaks a property and moves an
        anchor is thus reported as a violation, and an analysis error never hides one."""
        from .db import AnalysisError

        try:
            return rule_fn(*args, **kwargs)
        except AnalysisError as exc:
            self.deferred.append(exc)
            return None

    def end_of_rules(self) -> None:
        if not getattr(self, "deferred", None):
            return
        known = load_known()
        if any(_match_known(known, f) is None for f in self.findings):
            self.notes += [f"ANALYSIS-WARNING (deferred, a violation was found): {e}" for e in self.deferred]
            return
        raise self.deferred[0]

    # ---------------------------------------------------------------- finishing
    def finish(self, write_evidence: bool = True) -> int:
        known = load_known()
        new: list[Finding] = []
        matched: list[tuple[Finding, dict]] = []
        for f in self.findings:
            k = _match_known(known, f)
            if k is not None:
                matched.append((f, k))
            else:
                new.append(f)
        lines: list[str] = []
        for f, k in matched:
            lines.append(f"KNOWN-FINDING: property={f.prop} {f.rule} {f.function}: {k.get('what', f.message)}")
        replay_dir = os.path.join(VERIF, "out", "replay")
        for f in new:
            os.makedirs(replay_dir, exist_ok=True)
            digest = hashlib.sha256("|".join(f.key).encode()).hexdigest()[:12]
            path = os.path.join(replay_dir, f"{f.prop}-{digest}.json")
            with open(path, "w") as fh:
                json.dump(f.to_json(), fh, indent=1)
            lines.append(f"{f.file}:{f.line}: {f.rule} {f.function}: {f.message}")
            lines.append(f"    construct: {f.statement}")
            if f.witness:
                lines.append(f"    path (lines): {' -> '.join(str(w) for w in f.witness[-25:])}")
            lines.append(f"VIOLATION property={f.prop} replay={path}")
        n_ob = len(self.obligations)
        n_ok = sum(1 for o in self.obligations if o["holds"])
        wall = time.time() - self.t0
        if write_evidence:
            self._write_evidence(n_ob, n_ok, wall, new, matched)
        if not self.quiet:
            rules = sorted({o["rule"] for o in self.obligations})
            print(f"[{self.prop}] tier={self.tier} rules={len(rules)} obligations={n_ob} discharged={n_ok} "
                  f"findings={len(self.findings)} (known={len(matched)}, new={len(new)}) wall={wall:.2f}s")
            for r in rules:
                obs = [o for o in self.obligations if o["rule"] == r]
                print(f"  {r}: {sum(1 for o in obs if o['holds'])}/{len(obs)} instances hold")
            for line in lines:
                print(line)
        return 1 if new else 0

    def _write_evidence(self, n_ob: int, n_ok: int, wall: float, new, matched) -> None:
        samples = []
        seen_rules: dict[str, int] = {}
        for o in self.obligations:
            if seen_rules.get(o["rule"], 0) < 3:
                samples.append(o)
                seen_rules[o["rule"]] = seen_rules.get(o["rule"], 0) + 1
        distinct = len({(o["rule"], o["instance"]) for o in self.obligations})
        ev = {
            "property_id": self.prop,
            "tier": self.tier,
            "seed": self.seed,
            "level": "other",
            "coverage": {
                "explanation": (
                    "static analysis of /repo's current source (ast-based program database, annotation-driven call "
                    "resolution, exception-aware abstract interpretation); each obligation is one rule instance "
                    "(function x rule x site) decided on all paths; see DESIGN.md"
                ),
                "evaluations": max(n_ob, 0),
                "distinct_nontrivial": distinct,
                "rule": "one evaluation = one rule instance located by a role query on the current tree; distinct = distinct (rule, instance) pairs; all are non-trivial (each names a concrete function/site and was walked path by path)",
                "obligations": n_ob,
                "discharged": n_ok,
                "samples": samples,
                "rules": sorted({o["rule"] for o in self.obligations}),
                "counters": self.counters,
                "floors": {k: {"measured": v[0], "floor": v[1]} for k, v in self.floors.items()},
                "engine": self.engine_stats,
                "tables": self.tables,
                "findings_known": [f.to_json() for f, _ in matched],
                "findings_new": [f.to_json() for f in new],
                "not_decided": self.not_decided,
                "selftest": self.selftest,
                "all_obligations": self.obligations if len(self.obligations) <= 400 else self.obligations[:400],
                "exhaustive": True,
                "checker_cmd": f"/venv/bin/python /verif/check {self.prop} --tier {self.tier}",
                "trusted_base": ["CPython ast", "API tables in /verif/sa/tables.py and rules/*.py", "repository annotations"],
            },
            "assumptions": self.assumptions + [f"not decided: {x}" for x in self.not_decided],
            "wall_s": round(wall, 3),
            "violations": len(new),
        }
        d = os.path.join(VERIF, "evidence")
        os.makedirs(d, exist_ok=True)
        with open(os.path.join(d, f"{self.prop}.json"), "w") as fh:
            json.dump(ev, fh, indent=1, default=str)


def load_known() -> list[dict]:
    if not os.path.exists(KNOWN_FILE):
        return []
    with open(KNOWN_FILE) as fh:
        data = json.load(fh)
    return list(data.get("findings", []))


def _match_known(known: list[dict], f: Finding) -> dict | None:
    for k in known:
        if k.get("property") == f.prop and k.get("rule") == f.rule and k.get("function") == f.function and k.get("statement") == f.statement:
            return k
    return None


class RuleAlias:
    """Report another property's rule function under this property's rule id (same constructs, shared machinery)."""

    def __init__(self, run, rule: str) -> None:
        self._run, self._rule = run, rule

    def finding(self, rule, *a, **k):
        return self._run.finding(self._rule, *a, **k)

    def ob(self, rule, *a, **k):
        return self._run.ob(self._rule, *a, **k)

    def floor(self, what, measured, minimum):
        return self._run.floor(f"{self._rule}: {what}", measured, minimum)

    def __getattr__(self, name):
        return getattr(self._run, name)
